// Package sched is the seeded scheduler of the simulator: real goroutines, parked at the
// verifhook sites and released one at a time; testing/synctest supplies quiescence detection
// and the fake clock.
package sched

import (
	"fmt"
	"hash/fnv"
	"math/rand"
	"runtime"
	"runtime/debug"
	"sort"
	"strconv"
	"strings"
	"sync"
	"sync/atomic"
	"testing"
	"testing/synctest"
	"time"

	"github.com/thanos-community/promql-engine/verifhook"
)

// Config of one simulated run. Everything the scheduler decides derives from it.
type Config struct {
	Strategy string   // first | random | rtb | pct | starve:<site prefix>
	Auto     bool     // park at "auto:" sites too
	Seed     int64    // seeds the strategy
	Tape     []uint16 // when non-nil: replay. choice k = Tape[k] mod |runnable|, 0 after the end
	MaxSteps int      // 0 = default
	Verbose  bool     // keep a textual event log
}

type PanicRec struct {
	Task    string `json:"task"`
	Value   string `json:"value"`
	Runtime bool   `json:"runtime_error"`
	Stack   string `json:"stack,omitempty"`
}

// Report of one run.
type Report struct {
	Steps     int
	Tape      []uint16
	Hash      uint64
	Panics    []PanicRec
	Deadlock  bool     // nothing runnable, no timer fired within the horizon, main not finished
	Blocked   []string // tasks alive at deadlock / leaked after main returned
	Leaked    bool
	Overrun   bool // MaxSteps exceeded
	FakeNanos int64
	Log       []string
	Pairs     map[string]int // site->site context switches
	BubbleErr string         // synctest's own complaint, if any
}

type Task struct {
	Name   string
	Site   string
	Client bool
	gid    uint64
	wake   chan struct{}
	parked bool
	at     string
	noPark int
	quiet  int // >0: holds a mutex (instrumented build): no automatic parks at all
	quietO int // >0: runs inside a sync.Once.Do: no automatic parks except race-directed ones
	hold   int
	drain  bool
	prio   int
}

type Sim struct {
	mu        sync.Mutex
	cfg       Config
	tasks     map[uint64]*Task
	seq       map[string]int
	step      int
	rec       []uint16
	rng       *rand.Rand
	hash      uint64
	log       []string
	panics    []PanicRec
	mainDone  bool
	exclusive int // >0: a goroutine is blocked inside a NoPark region; only clients may run
	last      *Task
	lastSite  string
	pairs     map[string]int
	siteCount map[string]int
	pctChange map[int]bool
	starve    string
	start     time.Time
	Progress  *atomic.Int64
}

var active atomic.Pointer[Sim]

// free-running mode (race-detector half of C12): hooks perturb instead of parking.
var freeSeed atomic.Int64
var freeCtr atomic.Uint64
var freePanics struct {
	sync.Mutex
	l []PanicRec
}

func init() {
	verifhook.GoFn = hookGo
	verifhook.YieldFn = Yield
	verifhook.NoParkFn = hookNoPark
}

// SetFreeRunning switches the hooks to seeded perturbation (seed != 0) or off (seed == 0).
func SetFreeRunning(seed int64) { freeSeed.Store(seed) }

// TakeFreePanics returns and clears panics recovered on engine goroutines in free-running mode.
func TakeFreePanics() []PanicRec {
	freePanics.Lock()
	defer freePanics.Unlock()
	l := freePanics.l
	freePanics.l = nil
	return l
}

func goid() uint64 {
	var buf [40]byte
	n := runtime.Stack(buf[:], false)
	// "goroutine 123 ["
	var id uint64
	for i := 10; i < n; i++ {
		c := buf[i]
		if c < '0' || c > '9' {
			break
		}
		id = id*10 + uint64(c-'0')
	}
	return id
}

func perturb() {
	s := freeSeed.Load()
	if s == 0 {
		return
	}
	x := freeCtr.Add(1)*0x9E3779B97F4A7C15 ^ uint64(s)
	x ^= x >> 29
	x *= 0xBF58476D1CE4E5B9
	x ^= x >> 32
	switch x % 8 {
	case 0, 1:
		runtime.Gosched()
	case 2:
		for i := 0; i < int(x>>8%200); i++ {
			runtime.Gosched()
		}
	}
}

func hookGo(site string, idx int) func() {
	s := active.Load()
	if s == nil {
		if freeSeed.Load() != 0 {
			perturb()
			return func() {
				if p := recover(); p != nil {
					_, isRt := p.(runtime.Error)
					freePanics.Lock()
					freePanics.l = append(freePanics.l, PanicRec{Task: site, Value: fmt.Sprint(p), Runtime: isRt, Stack: trimStack(debug.Stack())})
					freePanics.Unlock()
				}
			}
		}
		return func() {}
	}
	if strings.HasPrefix(site, "auto.go:") && s.lookup() != nil {
		// registration inserted by cmd/autoyield at the top of a function some `go` statement
		// calls: this call is a plain one on a goroutine that is a task already
		return func() {}
	}
	return s.register(site, idx, false)
}

func hookNoPark() func() {
	s := active.Load()
	if s == nil {
		return func() {}
	}
	t := s.lookup()
	if t == nil {
		return func() {}
	}
	t.noPark++ // only its own goroutine touches noPark
	return func() { t.noPark-- }
}

// Yield is a scheduling point for the calling goroutine, if it is a registered task.
func Yield(site string) {
	s := active.Load()
	if s == nil {
		perturb()
		return
	}
	auto := strings.HasPrefix(site, "auto:")
	forced := strings.HasPrefix(site, "auto!:") // race-directed: at a statement the race detector named
	if auto && !s.cfg.Auto && len(site) > 7 {
		return
	}
	t := s.lookup()
	if t == nil {
		return
	}
	if auto {
		// inserted by cmd/autoyield into the scratch copy the simulator is built from
		switch site {
		case "auto:+":
			t.quiet++
			return
		case "auto:-":
			if t.quiet > 0 {
				t.quiet--
			}
			return
		case "auto:o+":
			t.quietO++
			return
		case "auto:o-":
			if t.quietO > 0 {
				t.quietO--
			}
			return
		}
		if t.quiet > 0 || t.quietO > 0 {
			return
		}
	}
	if forced && t.quiet > 0 {
		return
	}
	if t.noPark > 0 {
		return
	}
	s.park(t, site, 0, false)
}

// autoSites is set by the test binary's init when it was built from an instrumented copy.
var autoSites atomic.Bool

func SetAutoSites(v bool) { autoSites.Store(v) }
func AutoSites() bool     { return autoSites.Load() }

// InNoPark reports whether the calling goroutine is a task inside a NoPark region.
func InNoPark() bool {
	s := active.Load()
	if s == nil {
		return false
	}
	t := s.lookup()
	return t != nil && t.noPark > 0
}

// BlockExclusive brackets a durable block (ctx.Done, fake sleep) taken inside a NoPark region:
// until it ends only client tasks are released, because any engine goroutine could run into the
// sync.Once the blocked goroutine holds, and a mutex wait is not durable for synctest.
func BlockExclusive() func() {
	s := active.Load()
	if s == nil {
		return func() {}
	}
	s.mu.Lock()
	s.exclusive++
	s.mu.Unlock()
	return func() {
		s.mu.Lock()
		s.exclusive--
		s.mu.Unlock()
	}
}

// Current returns the name of the calling task ("" if unregistered) and the current step.
func Current() (string, int) {
	s := active.Load()
	if s == nil {
		return "", 0
	}
	t := s.lookup()
	s.mu.Lock()
	st := s.step
	s.mu.Unlock()
	if t == nil {
		return "", st
	}
	return t.Name, st
}

// Note adds a line to the event log/hash of the active simulation.
func Note(format string, a ...any) {
	s := active.Load()
	if s == nil {
		return
	}
	s.mu.Lock()
	s.event(fmt.Sprintf(format, a...))
	s.mu.Unlock()
}

func (s *Sim) lookup() *Task {
	g := goid()
	s.mu.Lock()
	t := s.tasks[g]
	s.mu.Unlock()
	return t
}

func (s *Sim) event(e string) {
	h := fnv.New64a()
	var b [8]byte
	for i := 0; i < 8; i++ {
		b[i] = byte(s.hash >> (8 * i))
	}
	h.Write(b[:])
	h.Write([]byte(e))
	s.hash = h.Sum64()
	if s.cfg.Verbose {
		s.log = append(s.log, e)
	}
}

func (s *Sim) register(site string, idx int, client bool) func() {
	g := goid()
	s.mu.Lock()
	key := site + "#" + strconv.Itoa(idx)
	s.seq[key]++
	t := &Task{Name: key + "." + strconv.Itoa(s.seq[key]), Site: site, Client: client, gid: g, wake: make(chan struct{}, 1)}
	// derived from the name, not drawn: siblings started in one step register in any order
	ph := fnv.New64a()
	ph.Write([]byte(t.Name))
	var sb [8]byte
	for i := 0; i < 8; i++ {
		sb[i] = byte(uint64(s.cfg.Seed) >> (8 * i))
	}
	ph.Write(sb[:])
	t.prio = int(ph.Sum64() >> 44)
	s.tasks[g] = t
	t.parked = true
	t.at = "start"
	s.mu.Unlock()
	<-t.wake
	return func() {
		p := recover()
		s.mu.Lock()
		delete(s.tasks, g)
		if p != nil {
			_, isRt := p.(runtime.Error)
			s.panics = append(s.panics, PanicRec{Task: t.Name, Value: fmt.Sprint(p), Runtime: isRt, Stack: trimStack(debug.Stack())})
			s.event("panic " + t.Name)
		}
		s.mu.Unlock()
	}
}

func trimStack(b []byte) string {
	lines := strings.Split(string(b), "\n")
	var out []string
	for _, l := range lines {
		if strings.Contains(l, "promql-engine") || strings.Contains(l, "verifsim") || strings.Contains(l, "prometheus/") {
			out = append(out, strings.TrimSpace(l))
		}
		if len(out) > 24 {
			break
		}
	}
	return strings.Join(out, " | ")
}

// SiteCount: how often tasks have parked at the site so far.
func (s *Sim) SiteCount(site string) int {
	s.mu.Lock()
	defer s.mu.Unlock()
	return s.siteCount[site]
}

func (s *Sim) park(t *Task, site string, hold int, drain bool) {
	s.mu.Lock()
	if s.siteCount == nil {
		s.siteCount = map[string]int{}
	}
	s.siteCount[site]++
	t.parked = true
	t.at = site
	t.hold = hold
	t.drain = drain
	s.mu.Unlock()
	<-t.wake
}

// Go starts a client task.
func (s *Sim) Go(name string, idx int, fn func()) {
	go func() {
		defer s.register(name, idx, true)()
		fn()
	}()
}

// HoldUntil parks the calling client task until the scheduler's step counter has reached step
// (or nothing else can run).
func (s *Sim) HoldUntil(step int) {
	if t := s.lookup(); t != nil {
		s.park(t, "hold", step, false)
	}
}

// Drain parks the calling client until no other task is runnable, then returns the names of the
// tasks that are still alive (blocked, never to run again unless someone wakes them).
func (s *Sim) Drain() []string {
	t := s.lookup()
	if t == nil {
		return nil
	}
	s.park(t, "drain", 0, true)
	s.mu.Lock()
	defer s.mu.Unlock()
	var alive []string
	for _, o := range s.tasks {
		if o != t && !o.Client {
			alive = append(alive, o.Name+"@"+o.at)
		}
	}
	sort.Strings(alive)
	return alive
}

// ParkedSites returns how many tasks are currently parked at each hook site.
func (s *Sim) ParkedSites() map[string]int {
	s.mu.Lock()
	defer s.mu.Unlock()
	m := map[string]int{}
	for _, t := range s.tasks {
		if t.parked {
			m[t.at]++
		}
	}
	return m
}

// Step returns the number of scheduling decisions made so far.
func (s *Sim) Step() int {
	s.mu.Lock()
	defer s.mu.Unlock()
	return s.step
}

// FakeNow returns fake time elapsed since the start of the run.
func (s *Sim) FakeNow() time.Duration { return time.Since(s.start) }

// Alive returns the names of engine (non-client) tasks currently registered.
func (s *Sim) Alive() []string {
	s.mu.Lock()
	defer s.mu.Unlock()
	var alive []string
	for _, o := range s.tasks {
		if !o.Client {
			alive = append(alive, o.Name+"@"+o.at)
		}
	}
	sort.Strings(alive)
	return alive
}

const idleHorizon = 6 * time.Hour
const drainHorizon = 5 * time.Hour

func (s *Sim) loop() (rep Report) {
	idle := time.Duration(0)
	quantum := time.Millisecond
	maxSteps := s.cfg.MaxSteps
	if maxSteps == 0 {
		maxSteps = 1500000
	}
	for {
		synctest.Wait()
		if s.Progress != nil {
			s.Progress.Add(1)
		}
		s.mu.Lock()
		if s.mainDone && len(s.tasks) == 0 {
			s.mu.Unlock()
			break
		}
		var R, held, drainers []*Task
		for _, t := range s.tasks {
			if !t.parked {
				continue
			}
			switch {
			case t.drain:
				drainers = append(drainers, t)
			case s.exclusive > 0 && !t.Client:
				// frozen while a NoPark holder is blocked
			case t.hold > s.step:
				held = append(held, t)
			default:
				R = append(R, t)
			}
		}
		if len(R) == 0 {
			R = held
		}
		if len(R) == 0 && len(drainers) > 0 {
			// A drainer runs when nothing else can. Engine goroutines that are blocked rather
			// than parked may only be sleeping on the fake clock: let time pass first.
			blocked := 0
			for _, t := range s.tasks {
				if !t.parked && !t.Client {
					blocked++
				}
			}
			if blocked == 0 || idle >= drainHorizon {
				R = drainers
			}
		}
		if len(R) == 0 {
			if s.mainDone {
				// everything left is blocked for good: leaked goroutines
				rep.Leaked = true
				rep.Blocked = s.aliveLocked()
				s.mu.Unlock()
				break
			}
			s.mu.Unlock()
			if idle >= idleHorizon {
				s.mu.Lock()
				rep.Deadlock = true
				rep.Blocked = s.aliveLocked()
				s.event("deadlock")
				s.mu.Unlock()
				break
			}
			time.Sleep(quantum)
			idle += quantum
			if quantum < time.Hour {
				quantum *= 2
			}
			continue
		}
		idle, quantum = 0, time.Millisecond
		sort.Slice(R, func(i, j int) bool { return R[i].Name < R[j].Name })
		i := s.choose(R)
		t := R[i]
		s.rec = append(s.rec, uint16(i))
		s.step++
		s.event(strconv.Itoa(s.step) + " " + t.Name + " " + t.at)
		if s.last != t {
			s.pairs[s.lastSite+">"+t.at]++
		}
		s.last, s.lastSite = t, t.at
		t.parked = false
		t.drain = false
		over := s.step > maxSteps
		s.mu.Unlock()
		if over {
			rep.Overrun = true
			break
		}
		t.wake <- struct{}{}
	}
	s.mu.Lock()
	rep.Steps = s.step
	rep.Tape = s.rec
	rep.Hash = s.hash
	rep.Panics = s.panics
	rep.Log = s.log
	rep.Pairs = s.pairs
	s.mu.Unlock()
	rep.FakeNanos = int64(time.Since(s.start))
	return rep
}

func (s *Sim) aliveLocked() []string {
	var alive []string
	for _, o := range s.tasks {
		alive = append(alive, o.Name+"@"+o.at)
	}
	sort.Strings(alive)
	return alive
}

func (s *Sim) choose(R []*Task) int {
	k := len(s.rec)
	if s.cfg.Tape != nil {
		if k < len(s.cfg.Tape) {
			return int(s.cfg.Tape[k]) % len(R)
		}
		return 0
	}
	if len(R) == 1 {
		return 0
	}
	switch {
	case s.cfg.Strategy == "random":
		return s.rng.Intn(len(R))
	case s.cfg.Strategy == "rtb":
		if s.last != nil && s.rng.Intn(16) != 0 {
			for i, t := range R {
				if t == s.last {
					return i
				}
			}
		}
		return s.rng.Intn(len(R))
	case s.cfg.Strategy == "pct":
		best := 0
		for i, t := range R {
			if t.prio > R[best].prio {
				best = i
			}
		}
		if s.pctChange[s.step] {
			R[best].prio = -s.step
		}
		return best
	case strings.HasPrefix(s.cfg.Strategy, "starve:"):
		var ok []int
		for i, t := range R {
			if !strings.HasPrefix(t.Site, s.starve) {
				ok = append(ok, i)
			}
		}
		if len(ok) > 0 {
			return ok[s.rng.Intn(len(ok))]
		}
		return s.rng.Intn(len(R))
	}
	return 0 // "first"
}

// Run executes main as client task "main#0.1" inside a fresh synctest bubble under cfg.
func Run(t *testing.T, cfg Config, progress *atomic.Int64, main func(s *Sim)) (rep Report) {
	defer func() {
		if p := recover(); p != nil {
			rep.BubbleErr = fmt.Sprint(p)
		}
		active.Store(nil)
	}()
	synctest.Test(t, func(t *testing.T) {
		s := &Sim{cfg: cfg, tasks: map[uint64]*Task{}, seq: map[string]int{}, rng: rand.New(rand.NewSource(cfg.Seed)),
			pairs: map[string]int{}, pctChange: map[int]bool{}, start: time.Now(), Progress: progress}
		if cfg.Strategy == "pct" {
			for i := 0; i < 3; i++ {
				s.pctChange[s.rng.Intn(2000)] = true
			}
		}
		if strings.HasPrefix(cfg.Strategy, "starve:") {
			s.starve = strings.TrimPrefix(cfg.Strategy, "starve:")
		}
		active.Store(s)
		go func() {
			done := s.register("main", 0, true)
			defer func() {
				if p := recover(); p != nil {
					_, isRt := p.(runtime.Error)
					s.mu.Lock()
					s.panics = append(s.panics, PanicRec{Task: "main#0.1", Value: fmt.Sprint(p), Runtime: isRt, Stack: trimStack(debug.Stack())})
					s.mu.Unlock()
				}
				s.mu.Lock()
				s.mainDone = true
				s.mu.Unlock()
				done()
			}()
			main(s)
		}()
		rep = s.loop()
		active.Store(nil)
	})
	return rep
}
