package core

import (
	"fmt"
	"math"
	"sort"
	"strings"

	"github.com/prometheus/prometheus/model/labels"
	"github.com/prometheus/prometheus/model/value"
	"github.com/prometheus/prometheus/promql"
	"github.com/prometheus/prometheus/promql/parser"

	"verifsim/store"
)

type Pt struct {
	T int64   `json:"t"`
	V store.F `json:"v"`
}

type RSeries struct {
	L   string `json:"l"`
	Pts []Pt   `json:"pts"`
}

// Result is a normalised PromQL value: vectors are sorted by label set (Prometheus does not
// order them), matrices keep the order they came in.
type Result struct {
	Type   string    `json:"type"`
	Series []RSeries `json:"series,omitempty"`
	Str    string    `json:"str,omitempty"`
}

func Normalize(v parser.Value) *Result {
	r := &Result{}
	switch x := v.(type) {
	case promql.Matrix:
		r.Type = "matrix"
		for _, s := range x {
			rs := RSeries{L: s.Metric.String()}
			for _, p := range s.Points {
				rs.Pts = append(rs.Pts, Pt{p.T, store.F(p.V)})
			}
			r.Series = append(r.Series, rs)
		}
	case promql.Vector:
		r.Type = "vector"
		for _, s := range x {
			r.Series = append(r.Series, RSeries{L: s.Metric.String(), Pts: []Pt{{s.T, store.F(s.V)}}})
		}
		sort.SliceStable(r.Series, func(i, j int) bool { return r.Series[i].L < r.Series[j].L })
	case promql.Scalar:
		r.Type = "scalar"
		r.Series = []RSeries{{L: "", Pts: []Pt{{x.T, store.F(x.V)}}}}
	case promql.String:
		r.Type = "string"
		r.Str = x.V
	case nil:
		r.Type = "nil"
	default:
		r.Type = fmt.Sprintf("%T", v)
	}
	return r
}

func (r *Result) Points() int {
	n := 0
	for _, s := range r.Series {
		n += len(s.Pts)
	}
	return n
}

func (r *Result) Brief() string {
	if r == nil {
		return "<nil>"
	}
	var b strings.Builder
	fmt.Fprintf(&b, "%s[", r.Type)
	for i, s := range r.Series {
		if i > 3 {
			fmt.Fprintf(&b, " …%d more", len(r.Series)-i)
			break
		}
		fmt.Fprintf(&b, " %s:", s.L)
		for j, p := range s.Pts {
			if j > 5 {
				fmt.Fprintf(&b, "…(%d)", len(s.Pts))
				break
			}
			fmt.Fprintf(&b, "%d=%s ", p.T, fmtF(float64(p.V)))
		}
	}
	b.WriteString("]")
	if r.Str != "" {
		b.WriteString(r.Str)
	}
	return b.String()
}

func fmtF(v float64) string {
	if value.IsStaleNaN(v) {
		return "stale"
	}
	return fmt.Sprint(v)
}

func sameVal(x, y float64, tol float64) bool {
	if math.IsNaN(x) || math.IsNaN(y) {
		return math.IsNaN(x) && math.IsNaN(y) && value.IsStaleNaN(x) == value.IsStaleNaN(y)
	}
	if math.IsInf(x, 0) || math.IsInf(y, 0) {
		return x == y
	}
	if x == y {
		return true
	}
	m := math.Max(1, math.Max(math.Abs(x), math.Abs(y)))
	return math.Abs(x-y) <= tol*m
}

// Diff describes the first difference between two results; Kind=="" means equal.
type Diff struct {
	Kind   string // type | missing-series | extra-series | missing-points | extra-points | timestamp | value
	Detail string
}

const Tol = 1e-9

// Compare: got (engine) against want (reference).
func Compare(got, want *Result, tol float64) Diff {
	if got.Type != want.Type {
		return Diff{"type", fmt.Sprintf("got %s want %s", got.Type, want.Type)}
	}
	if got.Type == "string" {
		if got.Str != want.Str {
			return Diff{"value", fmt.Sprintf("got %q want %q", got.Str, want.Str)}
		}
		return Diff{}
	}
	gm := map[string][]Pt{}
	for _, s := range got.Series {
		if _, dup := gm[s.L]; dup {
			return Diff{"duplicate-series", s.L}
		}
		gm[s.L] = s.Pts
	}
	wm := map[string][]Pt{}
	for _, s := range want.Series {
		wm[s.L] = s.Pts
	}
	var keys []string
	for k := range wm {
		keys = append(keys, k)
	}
	sort.Strings(keys)
	for _, k := range keys {
		g, ok := gm[k]
		if !ok {
			return Diff{"missing-series", fmt.Sprintf("%s (got %d series, want %d)", k, len(got.Series), len(want.Series))}
		}
		w := wm[k]
		if len(g) < len(w) {
			return Diff{"missing-points", fmt.Sprintf("%s: got %d points want %d", k, len(g), len(w))}
		}
		if len(g) > len(w) {
			return Diff{"extra-points", fmt.Sprintf("%s: got %d points want %d", k, len(g), len(w))}
		}
		for i := range w {
			if g[i].T != w[i].T {
				return Diff{"timestamp", fmt.Sprintf("%s[%d]: got t=%d want t=%d", k, i, g[i].T, w[i].T)}
			}
			if !sameVal(float64(g[i].V), float64(w[i].V), tol) {
				return Diff{"value", fmt.Sprintf("%s@%d: got %s want %s", k, w[i].T, fmtF(float64(g[i].V)), fmtF(float64(w[i].V)))}
			}
		}
	}
	var extra []string
	for k := range gm {
		if _, ok := wm[k]; !ok {
			extra = append(extra, k)
		}
	}
	if len(extra) > 0 {
		sort.Strings(extra)
		return Diff{"extra-series", fmt.Sprintf("%s (got %d series, want %d)", extra[0], len(got.Series), len(want.Series))}
	}
	return Diff{}
}

// WellFormed checks C19 on a raw successful result.
func WellFormed(v parser.Value, typ parser.ValueType, rangeQ bool, start, end, step int64) []string {
	var out []string
	add := func(f string, a ...any) { out = append(out, fmt.Sprintf(f, a...)) }
	checkLabels := func(l labels.Labels) {
		for i, x := range l {
			if x.Value == "" {
				add("empty-label-value: %s", l.String())
			}
			if i > 0 && l[i-1].Name >= x.Name {
				if l[i-1].Name == x.Name {
					add("repeated-label-name: %s", l.String())
				} else {
					add("labels-unsorted: %s", l.String())
				}
			}
		}
	}
	switch x := v.(type) {
	case promql.Matrix:
		if !rangeQ && typ != parser.ValueTypeMatrix {
			add("instant-type: matrix for %s expression", typ)
		}
		seen := map[string]bool{}
		for i, s := range x {
			checkLabels(s.Metric)
			k := s.Metric.String()
			if seen[k] {
				add("duplicate-series: %s", k)
			}
			seen[k] = true
			if rangeQ && i > 0 && labels.Compare(x[i-1].Metric, s.Metric) > 0 {
				add("matrix-unsorted: %s after %s", k, x[i-1].Metric.String())
			}
			if len(s.Points) == 0 {
				add("empty-series: %s", k)
			}
			for j, p := range s.Points {
				if j > 0 && s.Points[j-1].T >= p.T {
					add("timestamps-not-increasing: %s t=%d after t=%d", k, p.T, s.Points[j-1].T)
					break
				}
				if rangeQ {
					if p.T < start || p.T > end || (step > 0 && (p.T-start)%step != 0) {
						add("off-grid: %s t=%d grid=[%d,%d]/%d", k, p.T, start, end, step)
						break
					}
				}
				if value.IsStaleNaN(p.V) {
					add("stale-marker: %s t=%d", k, p.T)
					break
				}
			}
		}
	case promql.Vector:
		if rangeQ {
			add("range-type: vector")
		} else if typ != parser.ValueTypeVector {
			add("instant-type: vector for %s expression", typ)
		}
		seen := map[string]bool{}
		for _, s := range x {
			checkLabels(s.Metric)
			k := s.Metric.String()
			if seen[k] {
				add("duplicate-series: %s", k)
			}
			seen[k] = true
			if s.T != start {
				add("sample-time: %s t=%d eval=%d", k, s.T, start)
			}
			if value.IsStaleNaN(s.V) {
				add("stale-marker: %s", k)
			}
		}
	case promql.Scalar:
		if rangeQ {
			add("range-type: scalar")
		} else if typ != parser.ValueTypeScalar {
			add("instant-type: scalar for %s expression", typ)
		}
		if x.T != start {
			add("sample-time: scalar t=%d eval=%d", x.T, start)
		}
		if value.IsStaleNaN(x.V) {
			add("stale-marker: scalar")
		}
	case promql.String:
		if rangeQ || typ != parser.ValueTypeString {
			add("instant-type: string for %s expression", typ)
		}
	default:
		add("unknown-value-type: %T", v)
	}
	return out
}
