package core

import (
	"fmt"
	"math/rand"
	"os"
	"runtime"
	"strings"
	"sync"
	"sync/atomic"
	"testing"

	"github.com/prometheus/prometheus/promql/parser"

	"verifsim/gen"
	"verifsim/sched"
	"verifsim/store"
)

func init() {
	scenarios["concurrent"] = scenario{pre: concPre, main: concMain}
	scenarios["race"] = scenario{main: raceMain, free: true}
	scenarios["history"] = scenario{main: historyMain}
	generators["C12"] = GenConcurrent
	generators["C20"] = GenHistory
}

// RaceMode is set by the worker when it runs under the race detector: C12 then generates
// free-running cases.
var RaceMode bool

// ---- C12 -------------------------------------------------------------------------------------

func GenConcurrent(t *testing.T, r *rand.Rand, prop, tier string, _ *atomic.Int64) *Case {
	w := gen.GenWindow(r, 0.3, false)
	k := 2 + r.Intn(7)
	if r.Intn(6) == 0 {
		k = 16 + r.Intn(17)
	}
	nq := 1 + r.Intn(4)
	var qs []string
	hist := false
	for i := 0; i < nq; i++ {
		prof := []string{"compose", "aggr", "binary", "rangefn", "fallback", "func"}[r.Intn(6)]
		p := gen.ProfileFor(prof)
		g := &gen.G{R: r, P: p, Start: w.Start, End: w.End, Step: w.Step}
		if g.Step == 0 {
			g.Step = 15000
		}
		q := g.Vector(1 + r.Intn(2))
		if _, err := parser.ParseExpr(q); err != nil {
			continue
		}
		if strings.Contains(q, "h_bucket") {
			hist = true
		}
		qs = append(qs, q)
	}
	if len(qs) == 0 {
		qs = []string{"sum by (a) (m1)"}
	}
	data := gen.GenData(r, w, gen.DataOpt{MaxSeries: 14, MinSeries: 2, Lookback: 300000, PStale: 0.02, NoTies: true, Hist: hist})
	eng := Eng{Optim: []string{"default", "none", "all"}[r.Intn(3)]}
	c := &Case{Prop: prop, Scen: "concurrent", Data: data, Sched: Sched{Strategy: pickStrategy(r), Seed: r.Int63()}, Store: drawStore(r)}
	c.Store.SharedLabels = true
	if r.Intn(4) == 0 {
		eng.Distributed = true
		c.NPart = 1 + r.Intn(3)
		c.Parts = make([]int, len(data))
		for i := range c.Parts {
			c.Parts[i] = r.Intn(c.NPart)
		}
	}
	shards := 1 + r.Intn(4)
	for i := 0; i < k; i++ {
		op := Op{Q: qs[r.Intn(len(qs))], Start: w.Start, End: w.End, Step: w.Step, Shards: shards, Eng: eng}
		if r.Intn(3) == 0 {
			op.End, op.Step = op.Start, 0
		}
		if r.Intn(6) == 0 {
			// one client is cancelled or closed by a second goroutine at some point (scheduler
			// step under the simulator, number of reschedules when free-running): the others
			// must not notice, and Cancel/Close must be safe next to Exec and the caller's Close
			op.ClientCancelStep = 1 + r.Intn(400)
			op.ClientClose = r.Intn(3) == 0
		}
		c.Ops = append(c.Ops, op)
	}
	if RaceMode {
		for i := range c.Ops {
			if r.Intn(4) == 0 {
				c.Ops[i].Faults = []store.Fault{{Kind: []string{"err", "panic", "cancel"}[r.Intn(3)], At: 1 + r.Intn(80)}}
			}
		}
		c.Scen = "race"
		c.Var = map[string]any{"repeat": 1 + r.Intn(3)}
	}
	return c
}

// ToRace turns a case of any scenario into the free-running workload of the race half: its query
// operations (with their storage faults and client cancellations) run concurrently on one engine
// over the case's data, on real goroutines, under the race detector.
func ToRace(c *Case) *Case {
	c2 := c.Clone()
	c2.Scen = "race"
	c2.Ops = nil
	for _, op := range c.Ops {
		if op.Kind == "" && op.Q != "" {
			op.Store = nil
			c2.Ops = append(c2.Ops, op)
		}
	}
	if len(c2.Ops) == 0 {
		return nil
	}
	if len(c2.Ops) == 1 {
		// a second client of the same query: two queries on one engine, two sets of shards
		c2.Ops = append(c2.Ops, c2.Ops[0])
		c2.Ops[1].Faults, c2.Ops[1].ClientCancelStep = nil, 0
	}
	c2.Var = map[string]any{"repeat": 2}
	return c2
}

func soloKey(op Op) string { return fmt.Sprintf("%s|%d|%d|%d", op.Q, op.Start, op.End, op.Step) }

func concPre(x *X) {
	c := x.C
	for _, op := range c.Ops {
		k := soloKey(op)
		if _, ok := x.Pre[k]; ok {
			continue
		}
		st, eng, _ := buildEngine(c, op, c.Store)
		op.ClientCancelStep, op.ClientClose = 0, false
		o := RunQuery(QueryRun{Op: op, Eng: eng, Store: st, Sim: x.S, Acct: st, Contract: false})
		x.R.Evals++
		x.S.Drain()
		x.Pre[k] = o
	}
}

func compareSolo(x *X, i int, op Op, o, solo *Outcome, data []store.Series) {
	desc := fmt.Sprintf("client %d: %s [%d..%d step %d]", i, op.Q, op.Start, op.End, op.Step)
	if o.ClientPanic != "" {
		x.Viol("C13", "client-panic", "client-panic:"+firstFrame(o.ClientPanic), desc+": "+o.ClientPanic)
		return
	}
	if o.CancelPanic != "" {
		x.Viol("C13", "client-panic", "cancel-panic:"+firstFrame(o.CancelPanic), desc+": panic inside Cancel()/Close() called from a second goroutine: "+o.CancelPanic)
		return
	}
	if op.ClientCancelStep > 0 && o.Canceled {
		x.Probe("client-cancelled")
		return // its own cancellation; the other clients are compared as usual
	}
	if o.Acct != nil && len(o.Acct.Fired) > 0 {
		x.Probe("client-faulted")
		x.Fire(o.Acct.Fired)
		return // its own storage fault
	}
	if o.Created != solo.Created || (o.Err != "") != (solo.Err != "") {
		x.Viol("C12", "isolation", "outcome-differs|"+Shape(op.Q), fmt.Sprintf("%s: concurrently %s, alone %s", desc, o.Brief(), solo.Brief()))
		return
	}
	if o.Res != nil && solo.Res != nil {
		if d := Compare(o.Res, solo.Res, Tol); d.Kind != "" {
			if x.undecidable(op, data) {
				return
			}
			x.Viol("C12", "isolation", d.Kind+"|"+Shape(op.Q), fmt.Sprintf("%s: result differs from the result of the same query run alone: %s", desc, d.Detail))
		}
	}
}

// recheckReturned: the value a client was handed is read again after its query was closed and
// every other client has finished; the other queries must not have written into it.
func recheckReturned(x *X, i int, op Op, o *Outcome) {
	if o == nil || o.Raw == nil || o.Res == nil {
		return
	}
	if d := Compare(Normalize(o.Raw), o.Res, 0); d.Kind != "" {
		x.Viol("C12", "isolation", "returned-result-altered|"+Shape(op.Q), fmt.Sprintf("client %d: %s [%d..%d step %d]: the returned result changed while the other queries ran: %s", i, op.Q, op.Start, op.End, op.Step, d.Detail))
	}
}

func concMain(x *X) {
	c := x.C
	st, eng, pstores := buildEngine(c, c.Ops[0], c.Store)
	outs := make([]*Outcome, len(c.Ops))
	done := make(chan int, len(c.Ops))
	for i := range c.Ops {
		i := i
		x.S.Go("client", i, func() {
			outs[i] = RunQuery(QueryRun{Op: c.Ops[i], Eng: eng, Store: st, Sim: x.S, Contract: false, Client: i})
			done <- i
		})
	}
	for range c.Ops {
		<-done
	}
	x.R.Evals += len(c.Ops)
	x.Probe(fmt.Sprintf("clients:%d", len(c.Ops)))
	if alive := x.S.Drain(); len(alive) > 0 {
		x.Viol("C14", "goroutine-leak", "leak-after-close:"+sites(alive)+"|concurrent", "engine goroutines alive after all queries returned and were closed: "+strings.Join(alive, ","))
	}
	nt := false
	for i, op := range c.Ops {
		solo := x.Pre[soloKey(op)]
		if outs[i] == nil || solo == nil {
			x.R.Infra = "missing outcome"
			return
		}
		if outs[i].Fallback {
			x.Probe("path:fallback")
		} else {
			x.Probe("path:native")
		}
		if solo.Res != nil && solo.Res.Points() > 0 {
			nt = true
		}
		compareSolo(x, i, op, outs[i], solo, c.Data)
		recheckReturned(x, i, op, outs[i])
	}
	x.R.Nontrivial = nt
	for _, s := range append([]*store.Store{st}, pstores...) {
		if err := s.SharedIntact(); err != nil {
			x.Viol("C17", "storage-data-modified", "storage-data-modified|concurrent", err.Error())
		}
	}
}

// raceMain: the same workload free-running on real goroutines, for the race detector. Not
// schedule-deterministic; the hooks perturb with seeded Gosched.
func raceMain(x *X) {
	c := x.C
	sched.SetFreeRunning(c.Sched.Seed | 1)
	defer sched.SetFreeRunning(0)
	runtime.GOMAXPROCS(8)
	repeat := 1
	switch v := c.Var["repeat"].(type) {
	case float64:
		repeat = int(v)
	case int:
		repeat = v
	}
	solos := map[string]*Outcome{}
	for _, op := range c.Ops {
		k := soloKey(op)
		if _, ok := solos[k]; ok {
			continue
		}
		op.Shards = 0
		op.ClientCancelStep, op.ClientClose, op.Faults = 0, false, nil
		st, eng, _ := buildEngine(c, op, c.Store)
		solos[k] = RunQuery(QueryRun{Op: op, Eng: eng, Store: st})
	}
	st, eng, _ := buildEngine(c, c.Ops[0], c.Store)
	outs := make([]*Outcome, len(c.Ops))
	var wg sync.WaitGroup
	for i := range c.Ops {
		i := i
		wg.Add(1)
		go func() {
			defer wg.Done()
			op := c.Ops[i]
			op.Shards = 0 // GOMAXPROCS is process-wide; leave it alone
			for k := 0; k < repeat; k++ {
				if len(op.Faults) > 0 && !op.Eng.Distributed {
					// the error, panic and cancellation paths under the race detector: this
					// client reads the same data through a storage of its own that carries
					// its fault plan; the engine is the shared one
					fst := store.New(c.Data, c.Store, false)
					outs[i] = RunQuery(QueryRun{Op: op, Eng: eng, Store: fst, Acct: fst})
					continue
				}
				op.Faults = nil
				outs[i] = RunQuery(QueryRun{Op: op, Eng: eng, Store: st})
			}
		}()
	}
	wg.Wait()
	x.R.Evals += len(c.Ops) * repeat
	x.R.Nontrivial = true
	for _, p := range sched.TakeFreePanics() {
		x.Viol("C13", "escaped-panic", "escaped-panic@"+p.Task, fmt.Sprintf("panic on engine goroutine %s: %s | %s", p.Task, p.Value, p.Stack))
	}
	for i, op := range c.Ops {
		compareSolo(x, i, op, outs[i], solos[soloKey(op)], c.Data)
		recheckReturned(x, i, op, outs[i])
	}
	if err := st.SharedIntact(); err != nil {
		x.Viol("C17", "storage-data-modified", "storage-data-modified|concurrent", err.Error())
	}
	// data races reported by the detector while this case ran
	if rep := newRaceReports(); rep != "" {
		fr, harness, sites := raceFrameSites(rep)
		if !harness {
			x.R.RaceSites = sites
		}
		switch {
		case harness:
			// one of the two accesses is the harness's own code: not the engine's race
			x.Probe("race-in-harness")
			fmt.Fprintln(os.Stderr, "race in the harness:", compactRace(rep))
		case fr != "":
			x.Viol("C12", "data-race", "data-race|"+fr, "race detector: "+compactRace(rep))
		default:
			x.Probe("race-outside-repo")
		}
	}
}

var raceLogOff int64

// newRaceReports returns what the race detector appended to its log since the last call.
func newRaceReports() string {
	path := os.Getenv("VSIM_RACE_LOG")
	if path == "" {
		return ""
	}
	path = fmt.Sprintf("%s.%d", path, os.Getpid())
	b, err := os.ReadFile(path)
	if err != nil || int64(len(b)) <= raceLogOff {
		return ""
	}
	s := string(b[raceLogOff:])
	raceLogOff = int64(len(b))
	return s
}

// raceFrame attributes a report: for each of the two access stacks, the first frame below the Go
// runtime and standard library decides - a frame of the engine (/repo or the instrumented copy)
// names the engine function, a frame of a dependency is skipped (who called it decides), a frame of
// this harness means the race is the harness's own. Returns the engine function ("" if none) and
// whether the harness is to blame.
func raceFrame(rep string) (string, bool) {
	fn, harness, _ := raceFrameSites(rep)
	return fn, harness
}

// raceFrameSites also returns, for every access stack, the engine statement it ran through
// ("execution/exchange/coalesce.go:120"): the places where the two goroutines must be interleaved.
func raceFrameSites(rep string) (string, bool, []string) {
	var sites []string
	// only the two access stacks count, not the "Goroutine N created at" sections
	var acc []string
	for _, sec := range strings.Split(rep, "\n\n") {
		t := strings.TrimSpace(sec)
		t = strings.TrimPrefix(t, "==================\n")
		t = strings.TrimPrefix(t, "WARNING: DATA RACE\n")
		if strings.HasPrefix(t, "Write at") || strings.HasPrefix(t, "Read at") || strings.HasPrefix(t, "Previous write") || strings.HasPrefix(t, "Previous read") ||
			strings.HasPrefix(t, "Atomic") || strings.HasPrefix(t, "Previous atomic") {
			acc = append(acc, t)
		}
	}
	engine, harness := "", false
	for _, a := range acc {
		lines := strings.Split(a, "\n")
		for i := 1; i+1 < len(lines); i += 2 {
			fn, file := strings.TrimSpace(lines[i]), strings.TrimSpace(lines[i+1])
			switch {
			case strings.Contains(file, "/verif/sim/") || strings.HasPrefix(fn, "verifsim/"):
				harness = true
			case strings.Contains(file, "/verifhook/"):
				continue
			case strings.Contains(file, "/repo/"):
				site := file[strings.LastIndex(file, "/repo/")+len("/repo/"):]
				if j := strings.Index(site, " "); j > 0 {
					site = site[:j]
				}
				sites = append(sites, site)
				if engine == "" {
					if j := strings.LastIndex(fn, "/"); j >= 0 {
						fn = fn[j+1:]
					}
					if j := strings.Index(fn, "("); j > 0 {
						fn = fn[:j]
					}
					engine = fn
				}
			default:
				continue // runtime, standard library, dependency: the caller decides
			}
			break
		}
	}
	return engine, harness, sites
}

func compactRace(rep string) string {
	var out []string
	for _, l := range strings.Split(rep, "\n") {
		l = strings.TrimSpace(l)
		if l == "" || strings.HasPrefix(l, "=====") {
			continue
		}
		if strings.HasPrefix(l, "Goroutine") {
			break
		}
		out = append(out, l)
		if len(out) > 40 {
			break
		}
	}
	return strings.Join(out, " | ")
}

// ---- C20 -------------------------------------------------------------------------------------

func GenHistory(t *testing.T, r *rand.Rand, prop, tier string, _ *atomic.Int64) *Case {
	w := gen.GenWindow(r, 0, false)
	if w.Steps() > 25 {
		w.End = w.Start + 24*w.Step
	}
	nq := 2 + r.Intn(4)
	var qs []string
	hist := false
	for len(qs) < nq {
		prof := []string{"compose", "aggr", "binary", "rangefn", "fallback", "func", "selector"}[r.Intn(7)]
		g := &gen.G{R: r, P: gen.ProfileFor(prof), Start: w.Start, End: w.End, Step: w.Step}
		q := g.Vector(1 + r.Intn(2))
		if _, err := parser.ParseExpr(q); err != nil {
			continue
		}
		if strings.Contains(q, "h_bucket") {
			hist = true
		}
		qs = append(qs, q)
	}
	data := gen.GenData(r, w, gen.DataOpt{MaxSeries: 10, MinSeries: 1, Lookback: 300000, PStale: 0.02, NoTies: true, Hist: hist})
	eng := Eng{Optim: []string{"default", "none", "all"}[r.Intn(3)], NoFallback: r.Intn(5) == 0}
	c := &Case{Prop: prop, Scen: "history", Data: data, Sched: Sched{Strategy: pickStrategy(r), Seed: r.Int63()}, Store: drawStore(r)}
	c.Store.SharedLabels = r.Intn(2) == 0
	n := 4 + r.Intn(12)
	if tier == "thorough" && r.Intn(3) == 0 {
		n = 20 + r.Intn(31)
	}
	tnext := w.End
	for i := 0; i < n; i++ {
		switch k := r.Intn(10); {
		case k < 6:
			op := Op{Q: qs[r.Intn(len(qs))], Start: w.Start, End: w.End, Step: w.Step, Shards: 1 + r.Intn(4), Eng: eng}
			switch r.Intn(4) {
			case 0:
				op.End, op.Step = op.Start, 0
			case 1:
				op.Start, op.End = tnext, tnext
				op.Step = 0
			}
			if r.Intn(6) == 0 {
				// per-query options are for that query only
				op.QLookbackMs = []int64{1000, 7000, 60000, 600000}[r.Intn(4)]
			}
			if r.Intn(8) == 0 {
				// an instant query whose value is a matrix (bare range selector or subquery): the
				// reference engine evaluates it and owns the point slices it returns
				op.Q = []string{"m1[90s]", "m2[5m]", "{__name__=~\"m1|m2\"}[2m]", "m1[3m:30s]", "sum(m1)[2m:20s]"}[r.Intn(5)]
				if op.Step != 0 {
					op.Start = op.End
					op.Step = 0
				}
			}
			switch r.Intn(8) {
			case 0:
				op.Faults = []store.Fault{{Kind: "cancel", At: 1 + r.Intn(60)}}
			case 1:
				op.Faults = []store.Fault{{Kind: "err", At: 1 + r.Intn(60)}}
			case 2:
				op.Faults = []store.Fault{{Kind: "panic", At: 1 + r.Intn(60)}}
			case 3:
				// Cancel() from a second client at an arbitrary scheduler step of this query
				// (relative to its start; historyMain rebases it)
				op.ClientCancelStep = 1 + r.Intn(250)
				op.ClientClose = r.Intn(4) == 0
			}
			c.Ops = append(c.Ops, op)
		case k < 9:
			// append samples to an existing series, or a new series
			tnext += int64(1000 * (1 + r.Intn(30)))
			var s store.Series
			if len(data) > 0 && r.Intn(4) != 0 {
				s.L = data[r.Intn(len(data))].L
			} else {
				s.L = []string{"__name__", []string{"m1", "m2", "m3"}[r.Intn(3)], "a", gen.LabelVals[r.Intn(3)], "n", fmt.Sprint(i)}
			}
			s.T = []int64{tnext}
			s.V = []store.F{store.F(r.Intn(1000))}
			c.Ops = append(c.Ops, Op{Kind: "append", Append: &s})
		default:
			c.Ops = append(c.Ops, Op{Kind: "gc"})
		}
	}
	if len(c.Ops) == 0 || c.Ops[0].Kind != "" {
		c.Ops = append([]Op{{Q: qs[0], Start: w.Start, End: w.End, Step: w.Step, Shards: 2, Eng: eng}}, c.Ops...)
	}
	return c
}

func historyMain(x *X) {
	c := x.C
	eng0 := c.Ops[0].Eng
	st := store.New(c.Data, c.Store, false)
	eng := NewEngine(eng0, nil)
	cur := append([]store.Series{}, c.Data...)
	type kept struct {
		i    int
		raw  parser.Value
		snap *Result
		q    string
	}
	var results []kept
	check := func(after int, what string) {
		for _, k := range results {
			if d := Compare(Normalize(k.raw), k.snap, 0); d.Kind != "" {
				x.Viol("C20", "result-altered", "result-altered|"+what, fmt.Sprintf("result of op %d (%s) was changed after op %d (%s): %s", k.i, k.q, after, what, d.Detail))
			}
		}
	}
	for i, op := range c.Ops {
		switch op.Kind {
		case "append":
			st.Append(*op.Append)
			merged := false
			for j := range cur {
				if sameL(cur[j].L, op.Append.L) {
					// the storage keeps only samples newer than the series' last (store.Append)
					nt := append([]int64{}, cur[j].T...)
					nv := append([]store.F{}, cur[j].V...)
					for k, t := range op.Append.T {
						if len(nt) > 0 && t <= nt[len(nt)-1] {
							continue
						}
						nt = append(nt, t)
						nv = append(nv, op.Append.V[k])
					}
					cur[j].T, cur[j].V = nt, nv
					merged = true
				}
			}
			if !merged {
				cur = append(cur, *op.Append)
			}
			check(i, "append")
		case "gc":
			runtime.GC()
			runtime.GC()
			check(i, "gc")
		default:
			op.Eng = eng0
			if op.ClientCancelStep > 0 {
				_, now := sched.Current()
				op.ClientCancelStep += now
			}
			o := RunQuery(QueryRun{Op: op, Eng: eng, Store: st, Sim: x.S, Acct: st, Contract: true})
			x.R.Evals++
			x.S.Drain()
			x.queryOracles(o, op, st)
			check(i, "query")
			if o.ClientPanic != "" {
				continue
			}
			if o.Acct != nil {
				x.Fire(o.Acct.Fired)
			}
			faulted := o.Acct != nil && len(o.Acct.Fired) > 0
			if op.ClientCancelStep > 0 && (o.Err != "" || !o.Created) {
				faulted = true
				x.Fire(map[string]int{"client-cancel": 1})
			}
			if !faulted {
				fop := op
				fop.Faults, fop.ClientCancelStep, fop.ClientClose = nil, 0, false
				fst := store.New(cur, c.Store, false)
				fo := RunQuery(QueryRun{Op: fop, Eng: NewEngine(eng0, nil), Store: fst, Sim: x.S, Acct: fst, Contract: false})
				x.R.Evals++
				x.S.Drain()
				desc := fmt.Sprintf("op %d: %s [%d..%d step %d]", i, op.Q, op.Start, op.End, op.Step)
				if fo.Created != o.Created || (fo.Err != "") != (o.Err != "") {
					x.Viol("C20", "fresh-engine-differs", "outcome-differs|"+Shape(op.Q), fmt.Sprintf("%s: long-lived engine %s, fresh engine %s", desc, o.Brief(), fo.Brief()))
				} else if o.Res != nil && fo.Res != nil {
					if o.Res.Points() > 0 {
						x.R.Nontrivial = true
					}
					if d := Compare(o.Res, fo.Res, Tol); d.Kind != "" {
						if !x.undecidable(op, cur) {
							x.Viol("C20", "fresh-engine-differs", d.Kind+"|"+Shape(op.Q), fmt.Sprintf("%s: differs from a freshly constructed engine on the current data: %s", desc, d.Detail))
						}
					}
				}
			}
			if o.Raw != nil {
				results = append(results, kept{i: i, raw: o.Raw, snap: Normalize(o.Raw), q: op.Q})
			}
		}
	}
	x.Probe(fmt.Sprintf("ops:%d", len(c.Ops)/10*10))
}
