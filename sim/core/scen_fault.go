package core

import (
	"errors"
	"fmt"
	"math/rand"
	"strings"
	"sync/atomic"
	"testing"

	"verifsim/gen"
	"verifsim/store"
)

func init() {
	scenarios["probe"] = scenario{main: faultPre}
	scenarios["fault"] = scenario{pre: faultPre, main: faultMain}
	for _, p := range []string{"C14", "C15"} {
		generators[p] = GenFault // C13 and C17 use mixtures, see gens.go
	}
}

// faultPre: the fault-free dry run under the boring schedule. Its outcome is the "complete
// result"; its callback log is what fault positions are drawn from.
func faultPre(x *X) {
	c := x.C
	op := c.Ops[0]
	op.Faults, op.ClientCancelStep, op.DeadlineMs = nil, 0, 0
	cfg := c.Store
	cfg.LatencyUs = 0
	op.Remote = nil
	st, eng, parts := buildEngine(c, op, cfg)
	o := RunQuery(QueryRun{Op: op, Eng: eng, Store: st, Sim: x.S, Acct: st, Parts: parts, Contract: false})
	x.R.Evals++
	x.Pre["complete"] = o
	d := &DryInfo{Steps: x.S.Step(), Start: o.ExecStart, End: o.ExecEnd, Fallback: o.Fallback, Failed: o.Failed()}
	a := o.Acct
	if op.FaultPart > 0 && op.FaultPart <= len(o.PartAccts) {
		a = o.PartAccts[op.FaultPart-1]
	}
	if a != nil {
		d.N = a.N
		d.Kinds = a.Kinds
	}
	x.R.Dry = d
}

// buildEngine creates the storage and engine of a case (local or distributed).
func buildEngine(c *Case, op Op, cfg store.Cfg) (*store.Store, *Engine, []*store.Store) {
	st := store.New(c.Data, cfg, false)
	if !op.Eng.Distributed {
		return st, NewEngine(op.Eng, nil), nil
	}
	n := c.NPart
	if n < 1 {
		n = 1
	}
	parts := make([][]store.Series, n)
	for i, s := range c.Data {
		p := 0
		if i < len(c.Parts) {
			p = c.Parts[i] % n
		}
		parts[p] = append(parts[p], s)
	}
	var remotes []*Remote
	var stores []*store.Store
	for i := 0; i < n; i++ {
		ps := store.New(parts[i], cfg, false)
		stores = append(stores, ps)
		rm := NewRemote(op.Eng, ps)
		if f := op.Remote; f != nil && f.Part%n == i {
			switch f.Kind {
			case "create-err":
				rm.CreateErr = &store.InjectedError{ID: "E#remote-create"}
			case "exec-err":
				rm.ExecErr = &store.InjectedError{ID: "E#remote-exec"}
			case "delay":
				rm.DelayMs = f.Ms
			}
		}
		remotes = append(remotes, rm)
	}
	return st, NewEngine(op.Eng, remotes), stores
}

func faultMain(x *X) {
	c := x.C
	op := c.Ops[0]
	complete := x.Pre["complete"]
	dry := x.R.Dry
	st, eng, parts := buildEngine(c, op, c.Store)
	// C17: a query that is created and closed without Exec opens no querier
	if op.Remote == nil {
		st.BeginOp(nil, nil)
		for _, ps := range parts {
			ps.BeginOp(nil, nil)
		}
		func() {
			defer func() { _ = recover() }()
			if q, err := newQuery(eng, st, op); err == nil {
				sched_yield()
				q.Close()
				x.Probe("created-never-executed")
			}
		}()
		opened := len(st.Acct().Queriers)
		for _, ps := range parts {
			opened += len(ps.Acct().Queriers)
		}
		if opened > 0 || st.Acct().N > 0 {
			x.Viol("C17", "querier-opened-without-exec", "querier-opened-without-exec", fmt.Sprintf("%s: created and closed without Exec, yet %d queriers were opened (%d storage callbacks)", op.Q, opened, st.Acct().N))
		}
		x.S.Drain()
	}
	o := RunQuery(QueryRun{Op: op, Eng: eng, Store: st, Sim: x.S, Acct: st, Parts: parts, Contract: true})
	x.R.Evals++
	alive := x.S.Drain()
	x.queryOracles(o, op, st)
	// fold the partitions' accounting and the transport's into the query's
	if o.Acct != nil {
		for i, pa := range o.PartAccts {
			for k, n := range pa.Fired {
				o.Acct.Fired[k] += n
				x.R.Fired[k] += n
			}
			o.Acct.Delivered = append(o.Acct.Delivered, pa.Delivered...)
			o.Acct.LiveAfterCancel = append(o.Acct.LiveAfterCancel, pa.LiveAfterCancel...)
			for j, q := range pa.Queriers {
				if q.Closes != 1 {
					x.Viol("C17", "querier-close-count", "querier-close-count|distributed", fmt.Sprintf("%s: querier %d of partition %d closed %d times", op.Q, j, i, q.Closes))
				} else if o.ExecEnd > 0 && q.CloseStep > o.ExecEnd {
					x.Viol("C17", "querier-closed-late", "querier-closed-late|distributed", fmt.Sprintf("%s: querier %d of partition %d closed at step %d, Exec returned at step %d", op.Q, j, i, q.CloseStep, o.ExecEnd))
				}
			}
		}
		for _, rm := range eng.Remotes {
			o.Acct.Delivered = append(o.Acct.Delivered, rm.Delivered...)
			if len(rm.Delivered) > 0 {
				o.Acct.Fired["remote-"+op.Remote.Kind] += len(rm.Delivered)
				x.R.Fired["remote-"+op.Remote.Kind] += len(rm.Delivered)
			}
			if rm.DelayMs > 0 && rm.Queries > 0 {
				o.Acct.Fired["remote-delay"]++
				x.R.Fired["remote-delay"]++
			}
		}
	}
	if op.Eng.Distributed {
		x.Probe("distributed")
	}
	if !o.Created {
		var refused []string
		for _, rm := range eng.Remotes {
			refused = append(refused, rm.Delivered...)
		}
		if len(refused) > 0 {
			// a remote engine refused the query at creation: that is a storage failure too
			x.Probe("error-delivered")
			x.R.Nontrivial = true
			x.R.Fired["remote-create-err"]++
			var ie *store.InjectedError
			if !errors.As(o.CreateErrVal, &ie) {
				x.Viol("C15", "error-not-wrapped", "error-not-wrapped|create|"+errClass(o.CreateErr), fmt.Sprintf("%s: a remote engine failed query creation with %v but the creation error %q does not wrap it", op.Q, refused, o.CreateErr))
			}
		}
	}
	x.R.Brief = o.Brief()
	shape := Shape(op.Q)
	path := "native"
	if o.Fallback {
		path = "fallback"
	}
	var fired []string
	nfired := 0
	if o.Acct != nil {
		for k, n := range o.Acct.Fired {
			fired = append(fired, k)
			nfired += n
		}
	}
	if o.CancelStep != 0 {
		x.Probe("cancelled")
		// where the rest of the query stood when the cancellation landed
		if o.ParkedAtCancel["conc.next.recv"] > 0 {
			x.Probe("cancel-while-consumer-before-buffer-receive")
		}
		if o.ParkedAtCancel["conc.pull.send"] > 0 {
			x.Probe("cancel-while-pull-before-buffer-send")
		}
		if o.ParkedAtCancel["worker.loop"]+o.ParkedAtCancel["worker.task"] > 0 {
			x.Probe("cancel-while-workers-active")
		}
		if o.ParkedAtCancel["coal.next.lock"] > 0 {
			x.Probe("cancel-while-merge-pending")
		}
	}
	if op.ClientCancelStep > 0 && o.CancelStep != 0 {
		if op.ClientClose {
			x.R.Fired["client-close"]++
		} else {
			x.R.Fired["client-cancel"]++
		}
	}
	if op.DeadlineMs > 0 && o.CtxDoneAtEnd {
		x.R.Fired["deadline"]++
	}
	x.R.Nontrivial = nfired > 0 || (o.CancelStep != 0 && o.ExecEnd != 0)

	// ---- C14 -------------------------------------------------------------------------------
	if len(alive) > 0 {
		x.Viol("C14", "goroutine-leak", "leak-after-close:"+sites(alive)+"|"+path, fmt.Sprintf("%s: engine goroutines alive after Exec returned and the query was closed: %s", op.Q, strings.Join(alive, ",")))
	}
	cancelled := o.CancelStep != 0 && o.Created
	if cancelled {
		if o.CancelStep > 0 && o.ExecEnd > 0 {
			lat := o.ExecEnd - o.CancelStep
			switch {
			case lat <= 50:
				x.Probe("cancel-latency<=50-steps")
			case lat <= 200:
				x.Probe("cancel-latency<=200-steps")
			case lat <= dry.Steps/2+200:
				x.Probe("cancel-latency<=half-run+200")
			default:
				x.Probe("cancel-latency>half-run+200")
			}
		}
		// the dry run has no per-callback latency; with latency every storage callback is one
		// more scheduling step (the wake-up from the fake sleep), so count the callbacks in
		work := dry.Steps
		if c.Store.LatencyUs > 0 {
			work += dry.N
		}
		bound := 4*work + 200
		if o.CancelStep > 0 && o.ExecEnd > 0 && o.ExecEnd-o.CancelStep > bound {
			x.Viol("C14", "cancel-latency", "cancel-latency|"+shape, fmt.Sprintf("%s: Exec returned %d scheduling steps after the cancellation (bound %d = 4x the fault-free run's steps + 200)", op.Q, o.ExecEnd-o.CancelStep, bound))
		}
		switch {
		case o.ClientPanic != "":
		case o.Err == "":
			if (complete.Res == nil || Compare(o.Res, complete.Res, Tol).Kind != "") && !x.undecidable(op, c.Data) {
				x.Viol("C14", "partial-result", "partial-result|"+path, fmt.Sprintf("%s: cancelled at step %d, Exec returned at step %d a successful result that is not the complete one: got %s, complete %s", op.Q, o.CancelStep, o.ExecEnd, o.Brief(), complete.Brief()))
			} else {
				x.Probe("cancel-after-completion")
			}
		case !o.Canceled && !o.Deadline:
			// another error is acceptable only if the fault-free run fails with it too or a storage error was delivered
			if complete.Err == "" && len(o.Injected) == 0 && !(o.Acct != nil && len(o.Acct.Delivered) > 0) {
				x.Viol("C14", "wrong-error", "wrong-error|"+path+"|"+errClass(o.Err), fmt.Sprintf("%s: cancelled, but Exec returned %q instead of the context's error", op.Q, o.Err))
			}
		default:
			x.Probe("cancel-error-ok")
		}
	}

	if o.LoopAtCancel >= 0 && o.Err == "" && o.Created && !o.Fallback && o.LoopAtEnd-o.LoopAtCancel >= 3 {
		// Exec looks at its context at the top of every pass of its loop: after a Cancel()/Close()
		// that returned while it was running it may finish the pass it is in, not three more
		x.Viol("C14", "cancel-ignored", "cancel-ignored-by-exec|"+path, fmt.Sprintf("%s: Cancel()/Close() returned while Exec was running; Exec went through %d more passes of its loop and returned a successful result", op.Q, o.LoopAtEnd-o.LoopAtCancel))
	}
	if o.Acct != nil && len(o.Acct.LiveAfterCancel) > 0 {
		x.Viol("C14", "cancel-ignored", "cancel-ignored|"+path, fmt.Sprintf("%s: Cancel()/Close() returned while Exec was running, yet storage callbacks %v still ran with a live context: the cancellation did not reach the query", op.Q, o.Acct.LiveAfterCancel))
	}

	// ---- C15 -------------------------------------------------------------------------------
	if o.Acct != nil && len(o.Acct.Delivered) > 0 && !cancelled && o.ClientPanic == "" {
		x.Probe("error-delivered")
		switch {
		case o.Err == "":
			same := complete.Res != nil && Compare(o.Res, complete.Res, Tol).Kind == ""
			x.Viol("C15", "success-after-storage-error", fmt.Sprintf("success-after-storage-error|%s|same=%v|%s", path, same, kindsOf(fired)), fmt.Sprintf("%s: storage delivered %v (%v) but Exec succeeded with %s (fault-free result: %s)", op.Q, o.Acct.Delivered, fired, o.Brief(), complete.Brief()))
		case len(intersect(o.Injected, o.Acct.Delivered)) == 0:
			if complete.Err == "" {
				x.Viol("C15", "error-not-wrapped", "error-not-wrapped|"+path+"|"+errClass(o.Err), fmt.Sprintf("%s: storage delivered %v but the query error %q does not wrap it", op.Q, o.Acct.Delivered, o.Err))
			}
		}
	}

	// ---- C13 -------------------------------------------------------------------------------
	panicFired := false
	for _, f := range fired {
		if strings.HasPrefix(f, "panic@") {
			panicFired = true
		}
	}
	if panicFired {
		x.Probe("panic-fired")
		if o.Err == "" && o.ClientPanic == "" && o.Created {
			x.Viol("C13", "panic-swallowed", "panic-swallowed|"+path+"|"+kindsOf(fired), fmt.Sprintf("%s: a runtime panic was raised inside a storage callback (%v) but Exec returned success: %s", op.Q, fired, o.Brief()))
		}
	}

	// ---- follow-up query on the same engine and storage -------------------------------------
	if o.Created {
		op2 := op
		op2.Faults, op2.ClientCancelStep, op2.DeadlineMs = nil, 0, 0
		op2.Remote = nil
		for _, rm := range eng.Remotes {
			rm.CreateErr, rm.ExecErr, rm.DelayMs = nil, nil, 0
		}
		o2 := RunQuery(QueryRun{Op: op2, Eng: eng, Store: st, Sim: x.S, Acct: st, Parts: parts, Contract: false})
		x.R.Evals++
		x.S.Drain()
		prop := c.Prop
		if prop != "C13" && prop != "C14" && prop != "C15" {
			prop = "C13"
		}
		if ((o2.Err != "") != (complete.Err != "") || o2.Created != complete.Created ||
			(o2.Res != nil && complete.Res != nil && Compare(o2.Res, complete.Res, Tol).Kind != "")) && !x.undecidable(op2, c.Data) {
			x.Viol(prop, "follow-up-differs", "follow-up-differs|"+path, fmt.Sprintf("%s: after the faulted query, the same query on the same engine returned %s; alone it returns %s", op.Q, o2.Brief(), complete.Brief()))
		}
		x.queryOracles(o2, op2, st)
	}
}

func intersect(a, b []string) []string {
	m := map[string]bool{}
	for _, x := range b {
		m[x] = true
	}
	var out []string
	for _, x := range a {
		if m[x] {
			out = append(out, x)
		}
	}
	return out
}

func kindsOf(fired []string) string {
	m := map[string]bool{}
	for _, f := range fired {
		m[f] = true
	}
	var l []string
	for k := range m {
		l = append(l, k)
	}
	sortStrings(l)
	return strings.Join(l, ",")
}

func errClass(e string) string {
	e = reNumAny.ReplaceAllString(e, "N")
	if len(e) > 60 {
		e = e[:60]
	}
	return e
}

// GenFault draws a query, probes it with a dry run, and places faults inside it.
func GenFault(t *testing.T, r *rand.Rand, prop, tier string, progress *atomic.Int64) *Case {
	w, q, data, el, ql, _ := GenQuery(r, []string{"compose", "compose", "aggr", "binary", "func", "rangefn"}[r.Intn(6)], 0, 0.25)
	selectorless := false
	if prop == "C14" && r.Intn(12) == 0 && w.Step > 0 {
		// a query that never touches the storage: only Exec itself can notice a cancellation
		g := &gen.G{R: r, P: gen.ProfileFor("func"), Start: w.Start, End: w.End, Step: w.Step}
		q = []string{"time()", "(time())", "+time()", "vector(time())", "time() + 1", "pi() * time()", "-vector(1)"}[r.Intn(7)]
		if r.Intn(3) == 0 {
			q = g.Scalar(2)
		}
		if w.Steps() < 25 {
			w.End = w.Start + int64(25+r.Intn(40))*w.Step
		}
		selectorless = true
	}
	op := Op{Q: q, Start: w.Start, End: w.End, Step: w.Step, QLookbackMs: ql, Shards: 1 + r.Intn(4),
		Eng: Eng{LookbackMs: el, Optim: []string{"default", "none", "all"}[r.Intn(3)]}, WrapMode: []int{0, 0, 2}[r.Intn(3)]}
	c := &Case{Prop: prop, Scen: "fault", Data: data, Ops: []Op{op}, Sched: Sched{Strategy: pickStrategy(r), Seed: r.Int63()}, Store: drawStore(r)}
	if c.Store.YieldEvery == 0 {
		c.Store.YieldEvery = 1 + r.Intn(3)
	}
	if r.Intn(4) == 0 {
		// through the distributed engine: faults hit one partition's storage or the transport
		c.Ops[0].Eng.Distributed = true
		c.NPart = 1 + r.Intn(3)
		c.Parts = make([]int, len(data))
		for i := range c.Parts {
			c.Parts[i] = r.Intn(c.NPart)
		}
		c.Ops[0].FaultPart = 1 + r.Intn(c.NPart)
	}
	probe := c.Clone()
	probe.Scen = "probe"
	probe.Sched = Sched{Strategy: "first"}
	pr := RunCase(t, probe, progress, false)
	d := pr.Dry
	if selectorless && d != nil && !d.Failed {
		o := &c.Ops[0]
		steps := d.End - d.Start
		if steps < 2 {
			steps = 2
		}
		o.ClientCancelStep = d.Start + 1 + r.Intn(steps)
		o.ClientClose = r.Intn(3) == 0
		return c
	}
	if d == nil || d.N == 0 || d.Failed {
		// nothing to inject into (no storage interaction, or the query fails by itself)
		if prop != "C17" {
			return nil
		}
	}
	if d == nil {
		d = &DryInfo{}
	}
	pos := func(eligible func(k uint8) bool) int {
		var c []int
		for i, k := range d.Kinds {
			if eligible(k) {
				c = append(c, i+1)
			}
		}
		if len(c) == 0 {
			return 1 + r.Intn(d.N+1)
		}
		// bias towards the beginning (series loading), the end, and uniform
		switch r.Intn(4) {
		case 0:
			return c[r.Intn(1+len(c)/8)]
		case 1:
			return c[len(c)-1-r.Intn(1+len(c)/8)]
		}
		return c[r.Intn(len(c))]
	}
	anyK := func(uint8) bool { return true }
	failK := func(k uint8) bool {
		return k == store.KQuerier || k == store.KSSNext || k == store.KSeek || k == store.KNext
	}
	o := &c.Ops[0]
	execSteps := d.End - d.Start
	if execSteps < 1 {
		execSteps = 1
	}
	kind := prop
	if prop == "C17" {
		kind = []string{"C13", "C14", "C15", "none"}[r.Intn(4)]
	}
	if o.Eng.Distributed && r.Intn(3) == 0 && (kind == "C14" || kind == "C15") {
		// transport faults instead of storage faults
		part := r.Intn(c.NPart)
		if kind == "C15" {
			o.Remote = &RemoteFault{Part: part, Kind: []string{"create-err", "exec-err"}[r.Intn(2)]}
		} else {
			o.Remote = &RemoteFault{Part: part, Kind: "delay", Ms: int64(1 + r.Intn(3000))}
			if r.Intn(2) == 0 {
				o.DeadlineMs = int64(1 + r.Intn(3000))
			} else {
				o.ClientCancelStep = d.Start + 1 + r.Intn(execSteps*2)
			}
		}
		return c
	}
	switch kind {
	case "C13":
		o.Faults = []store.Fault{{Kind: "panic", At: pos(anyK)}}
		if r.Intn(5) == 0 {
			// an ordinary storage error must not take the process down either (its error path
			// runs code of its own: resets, early returns, sibling shards left waiting)
			o.Faults = []store.Fault{{Kind: "err", At: pos(failK)}}
		}
		if r.Intn(4) == 0 {
			// Cancel()/Close() from a second goroutine, biased to the moment Exec returns and the
			// caller closes the query itself: a panic inside them is a crash of the host too
			if r.Intn(2) == 0 {
				o.Faults = nil
			}
			o.ClientCancelStep = d.Start + 1 + r.Intn(execSteps*2)
			if r.Intn(2) == 0 && execSteps > 8 {
				o.ClientCancelStep = d.End - r.Intn(8)
			}
			o.ClientClose = r.Intn(2) == 0
		}
	case "C15":
		o.Faults = []store.Fault{{Kind: "err", At: pos(failK)}}
		if r.Intn(4) == 0 {
			o.Faults = append(o.Faults, store.Fault{Kind: "err", At: pos(failK)})
		}
	case "C14":
		switch r.Intn(8) {
		case 0, 1, 2:
			o.Faults = []store.Fault{{Kind: "cancel", At: pos(anyK)}}
			if prop == "C17" && r.Intn(2) == 0 {
				// while a querier is open: between Querier() and its Close()
				o.Faults[0].At = pos(func(k uint8) bool {
					return k == store.KSelect || k == store.KSSNext || k == store.KSSAt || k == store.KSSErr || k == store.KLabels
				})
			}
		case 3:
			o.ClientCancelStep = d.Start + 1 + r.Intn(execSteps*2)
		case 4:
			o.ClientCancelStep = d.Start + 1 + r.Intn(execSteps*2)
			o.ClientClose = true
		case 5:
			c.Store.LatencyUs = 1000
			o.DeadlineMs = int64(1 + r.Intn(d.N+2))
		case 6:
			o.Faults = []store.Fault{{Kind: "stall", At: pos(anyK)}}
			if r.Intn(2) == 0 {
				o.DeadlineMs = int64(1 + r.Intn(5000))
			} else {
				o.ClientCancelStep = d.Start + 1 + r.Intn(execSteps*2)
			}
		case 7:
			o.Faults = []store.Fault{{Kind: "delay", At: pos(anyK), Ms: int64(1 + r.Intn(2000))}}
			o.DeadlineMs = int64(1 + r.Intn(2000))
		}
	}
	return c
}
