package core

import (
	"context"
	"fmt"
	"strings"
	"sync"
	"sync/atomic"

	"github.com/prometheus/prometheus/model/labels"
	"github.com/prometheus/prometheus/model/value"

	"github.com/thanos-community/promql-engine/execution"
	"github.com/thanos-community/promql-engine/execution/model"
	"github.com/thanos-community/promql-engine/query"

	"verifsim/sched"
)

// Contract collects the findings of the operator-boundary checker (C18) for one run.
type Contract struct {
	mu       sync.Mutex
	Mode     int
	Findings map[string]string // key "optype|clause" -> first detail
	Ops      int
	Nexts    int
	Serieses int
	Probes   int
	ops      []*wrapOp
}

var activeContract atomic.Pointer[Contract]

func init() {
	execution.VerifWrapOperator = func(op model.VectorOperator, expr string, opts *query.Options) model.VectorOperator {
		c := activeContract.Load()
		if c == nil {
			return op
		}
		w := &wrapOp{inner: op, expr: expr, c: c, typ: strings.TrimPrefix(fmt.Sprintf("%T", op), "*"), lastT: -1 << 62}
		if inner, ok := op.(*wrapOp); ok {
			w.typ = inner.typ
		}
		w.start = opts.Start.UnixMilli()
		w.end = opts.End.UnixMilli()
		w.step = opts.Step.Milliseconds()
		c.mu.Lock()
		c.Ops++
		c.ops = append(c.ops, w)
		c.mu.Unlock()
		return w
	}
}

func (c *Contract) add(w *wrapOp, clause, detail string) {
	c.mu.Lock()
	k := w.typ + "|" + clause
	if _, ok := c.Findings[k]; !ok {
		c.Findings[k] = fmt.Sprintf("%s: %s", w.expr, detail)
	}
	c.mu.Unlock()
}

type wrapOp struct {
	inner model.VectorOperator
	expr  string
	typ   string
	c     *Contract

	start, end, step int64

	inflight atomic.Int32

	mu        sync.Mutex
	haveSnap  bool
	snap      []string
	nexts     int
	pos       int64 // number of step vectors delivered so far
	lastT     int64
	ended     bool
	errored   bool
	maxID     uint64
	sawSample bool
}

func (w *wrapOp) Explain() (string, []model.VectorOperator) { return w.inner.Explain() }
func (w *wrapOp) GetPool() *model.VectorPool                { return w.inner.GetPool() }

func (w *wrapOp) Series(ctx context.Context) ([]labels.Labels, error) {
	sched.Yield("op.series")
	s, err := w.inner.Series(ctx)
	if err != nil {
		return s, err
	}
	w.checkSeries(s)
	return s, err
}

func (w *wrapOp) checkSeries(s []labels.Labels) {
	strs := make([]string, len(s))
	for i, l := range s {
		strs[i] = l.String()
	}
	w.mu.Lock()
	w.c.mu.Lock()
	w.c.Serieses++
	w.c.mu.Unlock()
	if !w.haveSnap {
		w.haveSnap = true
		w.snap = strs
		w.mu.Unlock()
		return
	}
	old := w.snap
	w.mu.Unlock()
	if len(old) != len(strs) {
		w.c.add(w, "series-changed", fmt.Sprintf("series list had %d entries, now %d", len(old), len(strs)))
		return
	}
	for i := range old {
		if old[i] != strs[i] {
			w.c.add(w, "series-changed", fmt.Sprintf("series[%d] was %s, now %s", i, old[i], strs[i]))
			return
		}
	}
}

func (w *wrapOp) Next(ctx context.Context) ([]model.StepVector, error) {
	if w.inflight.Add(1) != 1 {
		w.c.add(w, "concurrent-next", "two Next calls in flight on one operator")
	}
	defer w.inflight.Add(-1)
	sched.Yield("op.next")
	w.mu.Lock()
	first := w.nexts == 0
	w.nexts++
	ended := w.ended
	w.mu.Unlock()
	w.c.mu.Lock()
	w.c.Nexts++
	mode := w.c.Mode
	w.c.mu.Unlock()
	if first && mode&1 != 0 {
		s, err := w.inner.Series(ctx)
		if err != nil {
			// a consumer that asks for the series list first and is refused fails its query; going on
			// to Next would hide the error (the loaders report it to their first caller only)
			w.mu.Lock()
			w.errored = true
			w.mu.Unlock()
			return nil, err
		}
		w.checkSeries(s)
	}
	r, err := w.inner.Next(ctx)
	if err != nil {
		w.mu.Lock()
		w.errored = true
		w.mu.Unlock()
		return r, err
	}
	if ended && r != nil {
		w.c.add(w, "resurrected", fmt.Sprintf("returned %d step vectors after having signalled the end of the stream", len(r)))
	}
	if r == nil {
		w.mu.Lock()
		was := w.ended
		w.ended = true
		w.mu.Unlock()
		if !was && ctx.Err() == nil {
			// "no step skipped relative to its siblings": a stream that has delivered some steps
			// ends, without an error and with a live context, only after the last step of its grid
			w.mu.Lock()
			pos := w.pos
			w.mu.Unlock()
			want := int64(1)
			if w.step > 0 {
				want = (w.end-w.start)/w.step + 1
			}
			if pos > 0 && pos < want {
				w.c.add(w, "ended-early", fmt.Sprintf("signalled the end of its stream after %d of %d steps, without an error and with a live context", pos, want))
			}
		}
		if !was && mode&2 != 0 && ctx.Err() == nil {
			// probe: an ended stream must stay ended
			w.c.mu.Lock()
			w.c.Probes++
			w.c.mu.Unlock()
			r2, err2 := w.inner.Next(ctx)
			if err2 == nil && r2 != nil {
				w.c.add(w, "resurrected", fmt.Sprintf("returned %d step vectors after having signalled the end of the stream", len(r2)))
			}
		}
		return nil, nil
	}
	w.checkBatch(r)
	return r, nil
}

func (w *wrapOp) checkBatch(r []model.StepVector) {
	if len(r) > 10 {
		w.c.add(w, "batch-size", fmt.Sprintf("batch of %d step vectors", len(r)))
	}
	w.mu.Lock()
	defer w.mu.Unlock()
	for _, v := range r {
		pos := w.pos
		w.pos++
		if len(v.SampleIDs) != len(v.Samples) {
			w.c.add(w, "ids-values-length", fmt.Sprintf("%d ids, %d values at T=%d", len(v.SampleIDs), len(v.Samples), v.T))
		}
		if len(v.Samples) == 0 {
			continue // the T of an empty step vector is not relied upon by any consumer
		}
		w.sawSample = true
		if v.T <= w.lastT {
			w.c.add(w, "step-order", fmt.Sprintf("step T=%d delivered after T=%d", v.T, w.lastT))
		}
		w.lastT = v.T
		want := w.start + pos*w.step
		if v.T != want {
			w.c.add(w, "step-position", fmt.Sprintf("step vector #%d carries T=%d, the grid has %d there (start=%d step=%d)", pos, v.T, want, w.start, w.step))
		}
		if v.T > w.end {
			w.c.add(w, "step-range", fmt.Sprintf("T=%d beyond end %d", v.T, w.end))
		}
		if len(v.SampleIDs) <= 64 {
			for i := range v.SampleIDs {
				for j := 0; j < i; j++ {
					if v.SampleIDs[i] == v.SampleIDs[j] {
						w.c.add(w, "duplicate-id", fmt.Sprintf("sample id %d twice at T=%d", v.SampleIDs[i], v.T))
					}
				}
			}
		} else {
			seen := make(map[uint64]struct{}, len(v.SampleIDs))
			for _, id := range v.SampleIDs {
				if _, ok := seen[id]; ok {
					w.c.add(w, "duplicate-id", fmt.Sprintf("sample id %d twice at T=%d", id, v.T))
				}
				seen[id] = struct{}{}
			}
		}
		for i, id := range v.SampleIDs {
			if id > w.maxID {
				w.maxID = id
			}
			if w.haveSnap && id >= uint64(len(w.snap)) && len(w.snap) > 0 {
				w.c.add(w, "id-range", fmt.Sprintf("sample id %d with %d series at T=%d", id, len(w.snap), v.T))
			}
			if i < len(v.Samples) && value.IsStaleNaN(v.Samples[i]) {
				w.c.add(w, "stale-marker", fmt.Sprintf("staleness marker emitted at T=%d", v.T))
			}
		}
	}
}

// Finish runs the end-of-run clauses.
func (c *Contract) Finish() {
	c.mu.Lock()
	ops := c.ops
	c.mu.Unlock()
	// "its series list never changes": ask every operator once more, after the whole stream
	// has been consumed (a consumer may have edited the label arrays it was handed)
	for _, w := range ops {
		w.mu.Lock()
		have := w.haveSnap && !w.errored
		w.mu.Unlock()
		if !have {
			continue
		}
		func() {
			defer func() { _ = recover() }()
			if s, err := w.inner.Series(context.Background()); err == nil {
				w.checkSeries(s)
			}
		}()
	}
	for _, w := range ops {
		w.mu.Lock()
		if w.haveSnap && w.sawSample && len(w.snap) > 0 && w.maxID >= uint64(len(w.snap)) {
			w.mu.Unlock()
			w.c.add(w, "id-range", fmt.Sprintf("sample id %d with %d series", w.maxID, len(w.snap)))
			continue
		}
		w.mu.Unlock()
	}
}
