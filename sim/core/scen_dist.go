package core

import (
	"fmt"
	"math/rand"
	"sort"
	"strings"
	"sync/atomic"
	"testing"

	"verifsim/store"
)

func init() {
	scenarios["dist"] = scenario{main: distMain}
	scenarios["hints"] = scenario{main: hintsMain}
	generators["C10"] = GenDist
	generators["C16"] = GenHints
}

// ---- C10: distributed execution equals central execution over the union ----------------------

var distAggrs = []string{"sum", "min", "max", "count", "group", "avg", "stddev", "topk(2,", "bottomk(1,", "quantile(0.5,",
	// a parameter that reads series, bare and inside arithmetic (seed H5): each partition would
	// compute another k or q from its own part
	"topk(scalar(count(m1)) - 1,", "bottomk(scalar(count(m1)) - 2,", "topk(scalar(count(m1)),", "quantile(scalar(count(m1)) / 10,"}

func GenDist(t *testing.T, r *rand.Rand, prop, tier string, _ *atomic.Int64) *Case {
	profile := []string{"aggr", "compose", "binary", "rangefn", "func", "fallback"}[r.Intn(6)]
	w, q, data, el, _, _ := GenQuery(r, profile, 0, 0.35)
	if r.Intn(3) == 0 {
		// a distributable aggregation at a chosen position of a larger expression
		inner := q
		op := distAggrs[r.Intn(len(distAggrs))]
		by := []string{"", " by (a)", " without (b)", " by (a,b)"}[r.Intn(4)]
		var ag string
		if strings.HasSuffix(op, ",") {
			ag = fmt.Sprintf("%s%s %s)", strings.TrimSuffix(strings.SplitN(op, "(", 2)[0], "("), by+" ("+strings.SplitN(op, "(", 2)[1], inner)
		} else {
			ag = fmt.Sprintf("%s%s (%s)", op, by, inner)
		}
		switch r.Intn(5) {
		case 0:
			q = ag
		case 1:
			q = fmt.Sprintf("%s + on() group_left %s", "m1", "sum("+ag+")")
		case 2:
			q = fmt.Sprintf("max by (a) (%s)", ag)
		case 3:
			q = fmt.Sprintf("abs(%s) * 2", ag)
		case 4:
			q = fmt.Sprintf("%s / %s", ag, ag)
		}
	}
	np := 1 + r.Intn(4)
	parts := make([]int, len(data))
	for i := range parts {
		parts[i] = r.Intn(np)
		if r.Intn(4) == 0 && np > 1 {
			parts[i] = 0 // leave some partitions empty
		}
	}
	if tier == "thorough" && len(data) <= 4 && np <= 3 {
		// exhaustive over assignments for small series counts, walked by case index
		idx := CaseIndex
		for i := range parts {
			parts[i] = idx % np
			idx /= np
		}
	}
	op := Op{Q: q, Start: w.Start, End: w.End, Step: w.Step, Shards: 1 + r.Intn(3),
		Eng: Eng{LookbackMs: el, Optim: []string{"default", "none"}[r.Intn(2)], Distributed: true}}
	if np > 1 && r.Intn(4) == 0 {
		op.Eng.Grow = true
	}
	if r.Intn(5) == 0 {
		// per-query lookback (QueryOpts.LookbackDelta): the remote engines must use it too
		op.QLookbackMs = []int64{1000, 7000, 60000, 300000, 600000}[r.Intn(5)]
	}
	c := &Case{Prop: prop, Scen: "dist", Data: data, Parts: parts, NPart: np, Ops: []Op{op},
		Sched: Sched{Strategy: pickStrategy(r), Seed: r.Int63()}, Store: drawStore(r)}
	return c
}

func distMain(x *X) {
	c := x.C
	op := c.Ops[0]
	shape := Shape(op.Q)
	st, eng, pstores := buildEngine(c, op, c.Store)
	do := RunQuery(QueryRun{Op: op, Eng: eng, Store: st, Sim: x.S, Acct: st, Contract: true})
	x.R.Evals++
	if alive := x.S.Drain(); len(alive) > 0 {
		x.Viol("C14", "goroutine-leak", "leak-after-close:"+sites(alive)+"|distributed", fmt.Sprintf("%s: engine goroutines alive after Exec returned and the query was closed: %s", op.Q, strings.Join(alive, ",")))
	}
	x.queryOracles(do, op, st)
	for _, ps := range pstores {
		if err := ps.SharedIntact(); err != nil {
			x.Viol("C17", "storage-data-modified", "storage-data-modified|"+shape, err.Error()+" after "+op.Q+" (partition)")
		}
		for i, q := range ps.Acct().Queriers {
			if q.Closes != 1 {
				x.Viol("C17", "querier-close-count", "querier-close-count|distributed", fmt.Sprintf("partition querier %d closed %d times", i, q.Closes))
			}
		}
	}
	cop := op
	cop.Eng.Distributed = false
	cst := store.New(c.Data, c.Store, false)
	co := RunQuery(QueryRun{Op: cop, Eng: NewEngine(cop.Eng, nil), Store: cst, Sim: x.S, Acct: cst, Contract: false})
	x.R.Evals++
	x.S.Drain()
	x.R.Nontrivial = co.Created && (co.Err != "" || (co.Res != nil && co.Res.Points() > 0))
	x.R.Brief = "distributed: " + do.Brief() + " || central: " + co.Brief()
	if do.ClientPanic != "" || co.ClientPanic != "" {
		return
	}
	remoteQueries := 0
	for _, r := range eng.Remotes {
		remoteQueries += r.Queries
	}
	if remoteQueries > 0 {
		x.Probe("remote-queries")
	}
	desc := fmt.Sprintf("%s [%d..%d step %d] over %d partitions %v", op.Q, op.Start, op.End, op.Step, c.NPart, c.Parts)
	if do.Created != co.Created {
		x.Viol("C10", "dist-vs-central", "creation|"+shape, fmt.Sprintf("%s: distributed creation %q, central creation %q", desc, do.CreateErr, co.CreateErr))
		return
	}
	if !do.Created {
		return
	}
	tie := func() bool { return op.hasTopK() && tieAmbiguous(cop, c.Data, op.Eng.LookbackMs) }
	if (do.Err != "") != (co.Err != "") {
		if tie() {
			x.R.Skipped = "tie"
			return
		}
		x.Viol("C10", "dist-vs-central", "error-mismatch|"+errClass(do.Err+co.Err)+"|"+shape, fmt.Sprintf("%s: distributed error %q, central error %q", desc, do.Err, co.Err))
		return
	}
	if do.Err != "" {
		return
	}
	if d := Compare(do.Res, co.Res, Tol); d.Kind != "" {
		if tie() {
			x.R.Skipped = "tie"
			return
		}
		if x.undecidable(cop, c.Data) {
			return
		}
		x.Viol("C10", "dist-vs-central", d.Kind+"|"+shape, fmt.Sprintf("%s: %s (distributed vs central)", desc, d.Detail))
	}
}

// ---- C16: selects carry the reference's matchers, range and hints; hinted range suffices ------

func GenHints(t *testing.T, r *rand.Rand, prop, tier string, _ *atomic.Int64) *Case {
	w, q, data, el, ql, _ := GenQuery(r, []string{"compose", "aggr", "rangefn", "selector", "func", "binary"}[r.Intn(6)], 0, 0.3)
	op := Op{Q: q, Start: w.Start, End: w.End, Step: w.Step, QLookbackMs: ql, Shards: 1 + r.Intn(3),
		Eng: Eng{LookbackMs: el, Optim: "none"}}
	c := &Case{Prop: prop, Scen: "hints", Data: data, Ops: []Op{op}, Sched: Sched{Strategy: pickStrategy(r), Seed: r.Int63()}, Store: drawStore(r)}
	c.Var = map[string]any{"optim": []string{"none", "default", "all"}[r.Intn(3)]}
	return c
}

func selectTuples(sel []store.SelectRec) []string {
	m := map[string]bool{}
	for _, s := range sel {
		h := s.Hints
		g := append([]string{}, h.Grouping...)
		sort.Strings(g) // the order of the grouping labels carries no meaning
		m[fmt.Sprintf("%s start=%d end=%d step=%d range=%d func=%q grouping=%v by=%v", s.Matchers, h.Start, h.End, h.Step, h.Range, h.Func, g, h.By)] = true
	}
	var l []string
	for k := range m {
		l = append(l, k)
	}
	sort.Strings(l)
	return l
}

func hintsMain(x *X) {
	c := x.C
	op := c.Ops[0]
	shape := Shape(op.Q)
	// (a) no plan rewrites: selects equal the reference's, as sets of distinct tuples
	st := store.New(c.Data, c.Store, false)
	o := RunQuery(QueryRun{Op: op, Eng: NewEngine(op.Eng, nil), Store: st, Sim: x.S, Acct: st, Contract: true})
	x.R.Evals++
	x.S.Drain()
	x.queryOracles(o, op, st)
	if o.ClientPanic != "" || !o.Created {
		return
	}
	if !o.Fallback && o.Err == "" {
		// the reference engine over an instrumented (non-yielding) storage
		rst := store.New(c.Data, store.Cfg{}, false)
		ro := refOn(op, rst)
		if ro.Err == "" && ro.Created {
			got, want := selectTuples(o.Acct.Selects), selectTuples(rst.Acct().Selects)
			x.R.Nontrivial = len(want) > 0
			if strings.Join(got, "\n") != strings.Join(want, "\n") {
				var missing, extra []string
				ws := map[string]bool{}
				for _, w := range want {
					ws[w] = true
				}
				gs := map[string]bool{}
				for _, g := range got {
					gs[g] = true
					if !ws[g] {
						extra = append(extra, g)
					}
				}
				for _, w := range want {
					if !gs[w] {
						missing = append(missing, w)
					}
				}
				x.Viol("C16", "select-hints", "select-differs|"+shape+"|"+windowClass(op), fmt.Sprintf("%s [%d..%d step %d]: engine-only selects %v; reference-only selects %v", op.Q, op.Start, op.End, op.Step, extra, missing))
			}
		}
	}
	// (b) hinted range suffices, for a drawn optimizer set
	optim, _ := c.Var["optim"].(string)
	bop := op
	bop.Eng.Optim = optim
	run := func(trim bool) *Outcome {
		cfg := c.Store
		cfg.Trim = trim
		s := store.New(c.Data, cfg, false)
		out := RunQuery(QueryRun{Op: bop, Eng: NewEngine(bop.Eng, nil), Store: s, Sim: x.S, Acct: s, Contract: false})
		x.R.Evals++
		x.S.Drain()
		return out
	}
	full, trimmed := run(false), run(true)
	if full.ClientPanic != "" || trimmed.ClientPanic != "" || !full.Created {
		return
	}
	if full.Res != nil && full.Res.Points() > 0 {
		x.R.Nontrivial = true
	}
	if (full.Err != "") != (trimmed.Err != "") {
		x.Viol("C16", "hinted-range", "error-mismatch|"+shape, fmt.Sprintf("%s (optimizers %s): error %q with all samples, %q when the storage trims to the hinted range", op.Q, optim, full.Err, trimmed.Err))
		return
	}
	if full.Err != "" {
		return
	}
	// timestamps and label sets exactly; values up to summation order (the two runs have different
	// callback sequences, hence different schedules and shard arrival orders)
	if d := Compare(trimmed.Res, full.Res, Tol); d.Kind != "" {
		if x.undecidable(bop, c.Data) {
			return
		}
		x.Viol("C16", "hinted-range", "trim-"+d.Kind+"|"+shape+"|"+windowClass(op), fmt.Sprintf("%s [%d..%d step %d] (optimizers %s): result changes when the storage omits samples outside the hinted range: %s", op.Q, op.Start, op.End, op.Step, optim, d.Detail))
	}
}
