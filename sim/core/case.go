// Package core: cases, the query runner, oracles, scenarios and the minimiser.
package core

import (
	"crypto/sha1"
	"encoding/hex"
	"encoding/json"

	"verifsim/store"
)

// Sched is the schedule part of a case.
type Sched struct {
	Strategy string   `json:"strategy,omitempty"`
	Auto     bool     `json:"auto,omitempty"` // also deschedule at the automatically inserted yields (instrumented build)
	Seed     int64    `json:"seed,omitempty"`
	Tape     []uint16 `json:"tape,omitempty"` // non-nil => replay-only
}

// Eng are engine-level options.
type Eng struct {
	LookbackMs  int64  `json:"lookback_ms,omitempty"` // 0 = engine default (5m)
	Optim       string `json:"optim,omitempty"`       // default | none | all | sort | merge | prop | comma list
	NoFallback  bool   `json:"no_fallback,omitempty"`
	Distributed bool   `json:"distributed,omitempty"`
	Grow        bool   `json:"grow,omitempty"`  // distributed: the last remote engine joins the endpoints after the engine was constructed
	Debug       bool   `json:"debug,omitempty"` // Opts.DebugWriter set (the plan of every query is explained to it)
}

// Op is one operation of a case.
type Op struct {
	Kind        string        `json:"kind,omitempty"` // "" = query | append | gc
	Q           string        `json:"q,omitempty"`
	Start       int64         `json:"start"`
	End         int64         `json:"end"`
	Step        int64         `json:"step"` // 0 => instant query at Start
	QLookbackMs int64         `json:"qlookback_ms,omitempty"`
	Shards      int           `json:"shards,omitempty"`
	Eng         Eng           `json:"eng,omitempty"`
	Faults      []store.Fault `json:"faults,omitempty"`
	// cancellation by another client task
	ClientCancelStep int           `json:"client_cancel_step,omitempty"` // >0: Cancel() issued by a second task once the scheduler reached this step
	ClientClose      bool          `json:"client_close,omitempty"`       // use Close() instead of Cancel()
	DeadlineMs       int64         `json:"deadline_ms,omitempty"`        // Exec context deadline, fake time
	Append           *store.Series `json:"append,omitempty"`
	WrapMode         int           `json:"wrap_mode,omitempty"`  // 0 passive, 1 Series() before first Next, 2 probe after end, 3 both
	Store            *store.Cfg    `json:"store,omitempty"`      // per-op storage behaviour (overrides the case's)
	ExtraSeed        int64         `json:"extra_seed,omitempty"` // != 0: unrelated, non-matching series are added to the storage
	Tag              string        `json:"tag,omitempty"`
	FaultPart        int           `json:"fault_part,omitempty"` // distributed: 1-based partition whose storage gets the faults (0: the central storage)
	Remote           *RemoteFault  `json:"remote,omitempty"`     // distributed: transport fault of one remote engine
}

// RemoteFault is a fault of the simulated transport to one remote engine.
type RemoteFault struct {
	Part int    `json:"part"`
	Kind string `json:"kind"` // create-err | exec-err | delay
	Ms   int64  `json:"ms,omitempty"`
}

// Case is a complete, self-contained simulated execution: running it is a pure function of this
// document and the code.
type Case struct {
	ID    string         `json:"id"`
	Prop  string         `json:"property"`
	Scen  string         `json:"scenario"`
	Seed  int64          `json:"seed"`
	Data  []store.Series `json:"data"`
	Parts []int          `json:"parts,omitempty"`  // partition of each series (distributed scenarios)
	NPart int            `json:"nparts,omitempty"` // number of remote engines
	Ops   []Op           `json:"ops"`
	Sched Sched          `json:"sched"`
	Store store.Cfg      `json:"store,omitempty"`
	Var   map[string]any `json:"var,omitempty"` // scenario-specific knobs
}

func (c *Case) Clone() *Case {
	b, _ := json.Marshal(c)
	var d Case
	_ = json.Unmarshal(b, &d)
	return &d
}

// Hash identifies the case up to its id.
func (c *Case) Hash() string {
	d := c.Clone()
	d.ID = ""
	b, _ := json.Marshal(d)
	h := sha1.Sum(b)
	return hex.EncodeToString(h[:8])
}

func (c *Case) JSON() string {
	b, _ := json.MarshalIndent(c, "", " ")
	return string(b)
}

// Violation is one oracle failure.
type Violation struct {
	Prop   string `json:"property"`
	Oracle string `json:"oracle"`
	Key    string `json:"key"`
	Detail string `json:"detail"`
}
