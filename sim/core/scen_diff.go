package core

import (
	"fmt"
	"math"
	"math/rand"
	"strings"

	"github.com/prometheus/prometheus/promql/parser"

	"verifsim/gen"
	"verifsim/store"
)

func init() {
	scenarios["diff"] = scenario{main: diffMain}
}

var profileOf = map[string]string{"C01": "compose", "C02": "selector", "C03": "rangefn", "C04": "aggr", "C05": "binary", "C06": "func",
	"C18": "compose", "C19": "extreme", "C17": "compose", "C13": "aggr"}

var profileOfDiff = map[string]bool{"C01": true, "C02": true, "C03": true, "C04": true, "C05": true, "C06": true}

func lookbacks(r *rand.Rand) (eng, q int64) {
	eng = []int64{0, 0, 1000, 7000, 60000, 300000}[r.Intn(6)]
	if r.Intn(10) < 3 {
		q = []int64{1000, 7000, 60000, 600000, 300000}[r.Intn(5)]
	}
	return
}

func effLookback(eng, q int64) int64 {
	if q > 0 {
		return q
	}
	if eng > 0 {
		return eng
	}
	return 300000
}

func drawStore(r *rand.Rand) store.Cfg {
	c := store.Cfg{}
	if r.Intn(2) == 0 {
		c.PermSeed = r.Int63n(1<<30) + 1
	}
	c.SharedLabels = r.Intn(2) == 0
	c.Trim = r.Intn(3) == 0 // a storage may return only what the querier range and the hints ask for
	c.YieldEvery = []int{0, 1, 1, 2, 3, 7}[r.Intn(6)]
	c.HoldRoutine = r.Intn(4) == 0
	c.CtxErrors = r.Intn(3) == 0
	return c
}

// GenQuery draws (window, query, data) for a profile.
func GenQuery(r *rand.Rand, profile string, depthBonus int, pInstant float64) (gen.Window, string, []store.Series, int64, int64, bool) {
	return GenQueryOpt(r, profile, depthBonus, pInstant, false)
}

func GenQueryOpt(r *rand.Rand, profile string, depthBonus int, pInstant float64, noStartEnd bool) (gen.Window, string, []store.Series, int64, int64, bool) {
	if profile == "selector" && r.Intn(6) == 0 {
		// selectors also live in aggregation parameters and below functions: their lookback,
		// offset and @ handling must be the same there
		profile = []string{"aggr", "func", "compose"}[r.Intn(3)]
	}
	p := gen.ProfileFor(profile)
	p.Depth += depthBonus
	for tries := 0; ; tries++ {
		w := gen.GenWindow(r, pInstant, true)
		g := &gen.G{R: r, P: p, Start: w.Start, End: w.End, Step: w.Step, NoStartEnd: noStartEnd}
		if w.Step == 0 {
			g.Step = 15000
		}
		var q string
		if (profile == "func" || profile == "compose" || profile == "extreme") && r.Intn(8) == 0 {
			q = g.Scalar(p.Depth)
		} else {
			q = g.Vector(1 + r.Intn(p.Depth))
		}
		if profile == "selector" && r.Intn(12) == 0 {
			// a selector read through scalar() as the parameter of an aggregation: evaluated at every
			// step like any other, whatever its offset or @ (the plan treats parameters apart)
			q = fmt.Sprintf([]string{"topk(scalar(%s), %s)", "quantile(scalar(%s) / 100, %s)", "bottomk(scalar(%s) + 1, %s)"}[r.Intn(3)], g.Selector(), g.Selector())
		}
		if _, err := parser.ParseExpr(q); err != nil {
			if tries > 50 {
				panic("generator cannot produce a parsable query: " + q + ": " + err.Error())
			}
			continue
		}
		el, ql := lookbacks(r)
		do := gen.DataOpt{MaxSeries: 12, Hist: strings.Contains(q, "_bucket"), Lookback: effLookback(el, ql), PStale: 0.02, PSpecial: 0.02,
			NoTies: g.HasTopK}
		switch profile {
		case "selector":
			do.Grid = true
			do.MaxSeries = 40
			do.PStale = 0.08
		case "rangefn":
			do.Grid = r.Intn(2) == 0
			do.RangeMs = rangesIn(q)
			do.PStale = 0.05
			do.PSpecial = 0.04
		case "extreme":
			do.Extreme = true
		case "func":
			do.PSpecial = 0.06
		}
		if r.Intn(10) == 0 {
			// special-heavy data: steps that hold NaN, +Inf, -Inf and both zeros side by side
			do.PSpecial = 0.35
		}
		if do.Hist {
			do.MaxSeries = 6
		}
		data := gen.GenData(r, w, do)
		if a, b := twinMetrics(data); a != "" && !g.HasTopK && r.Intn(2) == 0 {
			// the dataset holds two series that take turns under one label set once the metric
			// name is gone: read both through something that drops the name, so that whoever
			// assembles the result has to merge them in time order whatever order they arrive in
			sel := fmt.Sprintf(`{__name__=~"%s|%s"}`, a, b)
			q = fmt.Sprintf([]string{"%s * 2", "%s + 0", "abs(%s)", "1 + %s", "%s > bool 0", "ceil(%s) - 1", "sum without (Z) (%s)", "clamp_min(%s, 0)"}[r.Intn(8)], sel)
		}
		return w, q, data, el, ql, g.HasTopK
	}
}

// twinMetrics: two stored series whose labels are equal but for the metric name (gen.twin).
func twinMetrics(data []store.Series) (string, string) {
	seen := map[string]string{}
	for _, s := range data {
		if len(s.L) < 2 || s.L[0] != "__name__" {
			continue
		}
		k := strings.Join(s.L[2:], "\xff")
		if other, ok := seen[k]; ok && other != s.L[1] {
			return other, s.L[1]
		}
		seen[k] = s.L[1]
	}
	return "", ""
}

func rangesIn(q string) []int64 {
	var out []int64
	expr, err := parser.ParseExpr(q)
	if err != nil {
		return nil
	}
	parser.Inspect(expr, func(n parser.Node, _ []parser.Node) error {
		if m, ok := n.(*parser.MatrixSelector); ok {
			out = append(out, m.Range.Milliseconds())
		}
		return nil
	})
	return out
}

func GenDiff(r *rand.Rand, prop string, tier string) *Case {
	bonus := 0
	if tier == "thorough" {
		bonus = 1
	}
	w, q, data, el, ql, _ := GenQuery(r, profileOf[prop], bonus, 0.3)
	op := Op{Q: q, Start: w.Start, End: w.End, Step: w.Step, QLookbackMs: ql, Shards: 1 + r.Intn(8),
		Eng: Eng{LookbackMs: el, Optim: []string{"default", "default", "none", "all"}[r.Intn(4)]}, WrapMode: []int{0, 0, 1, 2, 3}[r.Intn(5)]}
	return &Case{Prop: prop, Scen: "diff", Data: data, Ops: []Op{op},
		Sched: Sched{Strategy: pickStrategy(r), Seed: r.Int63()}, Store: drawStore(r)}
}

// tieAmbiguous: the operand of some topk/bottomk has two samples with the same value at one
// step; the reference engine's own answer then depends on input order.
func tieAmbiguous(op Op, data []store.Series, lookbackMs int64) bool {
	expr, err := parser.ParseExpr(op.Q)
	if err != nil {
		return false
	}
	amb := false
	parser.Inspect(expr, func(n parser.Node, _ []parser.Node) error {
		a, ok := n.(*parser.AggregateExpr)
		if !ok || (a.Op != parser.TOPK && a.Op != parser.BOTTOMK) || amb {
			return nil
		}
		iop := op
		iop.Q = a.Expr.String()
		ro := RefQuery(iop, data, lookbackMs)
		if ro.Res == nil {
			return nil
		}
		at := map[int64]map[uint64]bool{}
		for _, s := range ro.Res.Series {
			for _, p := range s.Pts {
				m := at[p.T]
				if m == nil {
					m = map[uint64]bool{}
					at[p.T] = m
				}
				v := float64(p.V)
				b := math.Float64bits(v)
				if v != v {
					b = 0x7ff8000000000001
				}
				if v == 0 {
					b = 0
				}
				if m[b] {
					amb = true
				}
				m[b] = true
			}
		}
		return nil
	})
	return amb
}

func diffMain(x *X) {
	c := x.C
	op := c.Ops[0]
	st := store.New(c.Data, c.Store, false)
	eng := NewEngine(op.Eng, nil)
	o := RunQuery(QueryRun{Op: op, Eng: eng, Store: st, Sim: x.S, Acct: st, Contract: true})
	x.R.Evals++
	if alive := x.S.Drain(); len(alive) > 0 {
		x.Viol("C14", "goroutine-leak", "leak-after-close:"+sites(alive), "engine goroutines alive after Exec returned and the query was closed: "+strings.Join(alive, ","))
	}
	x.queryOracles(o, op, st)
	x.R.Brief = o.Brief()
	ref := RefQuery(op, c.Data, op.Eng.LookbackMs)
	x.R.Brief += " || reference: " + ref.Brief()
	prop := c.Prop
	if _, ok := profileOfDiff[prop]; !ok {
		prop = "C01" // the case was generated for another property's check (C18, C19, ...)
	}
	x.diffOracle(prop, op, o, ref, c.Data)
}

func (x *X) diffOracle(prop string, op Op, o, ref *Outcome, data []store.Series) {
	key := func(kind string) string {
		k := kind + "|" + Shape(op.Q) + "|" + windowClass(op)
		if op.QLookbackMs > 0 {
			k += "|qlookback"
		}
		if op.Eng.Optim != "" && op.Eng.Optim != "none" {
			// the minimiser removes the optimizers whenever the violation survives without them
			k += "|optim=" + op.Eng.Optim
		}
		return k
	}
	if ref.ClientPanic != "" {
		x.R.Skipped = "reference panicked"
		return
	}
	if n := (op.End - op.Start); op.Step > 0 {
		if n/op.Step+1 > 10 {
			x.Probe("steps>batch")
		}
		if (n/op.Step+1)%10 != 0 {
			x.Probe("steps%batch!=0")
		}
	}
	if o.Fallback {
		x.R.Skipped = "fallback"
		x.Probe("fallback")
		return
	}
	if o.ClientPanic != "" {
		x.Viol(prop, "diff", key("panic"), fmt.Sprintf("%s: engine panicked (%s); reference: %s", op.Q, o.ClientPanic, ref.Brief()))
		return
	}
	if !o.Created || !ref.Created {
		if o.Created != ref.Created {
			x.Viol(prop, "diff", key("create-error-mismatch"), fmt.Sprintf("%s: engine creation: %q, reference creation: %q", op.Q, o.CreateErr, ref.CreateErr))
		}
		return
	}
	x.R.Nontrivial = ref.Err != "" || (ref.Res != nil && ref.Res.Points() > 0)
	if (o.Err != "") != (ref.Err != "") {
		if op.hasTopK() && tieAmbiguous(op, data, op.Eng.LookbackMs) {
			x.R.Skipped = "tie"
			return
		}
		if o.Err != "" {
			x.Viol(prop, "diff", key("error-only-engine"), fmt.Sprintf("%s: engine error %q, reference returned %s", op.Q, o.Err, ref.Brief()))
		} else {
			x.Viol(prop, "diff", key("error-only-reference"), fmt.Sprintf("%s: reference error %q, engine returned %s", op.Q, ref.Err, o.Brief()))
		}
		return
	}
	if o.Err != "" {
		x.Probe("both-error")
		return
	}
	d := Compare(o.Res, ref.Res, Tol)
	if d.Kind == "" {
		return
	}
	if op.hasTopK() && tieAmbiguous(op, data, op.Eng.LookbackMs) {
		x.R.Skipped = "tie"
		x.Probe("tie-skipped")
		return
	}
	if orderSensitive(op, data, ref.Res) {
		// the reference's own answer changes with the order in which the storage returns the
		// series (floating-point summation order, possibly amplified by a discontinuous
		// function): not decidable by comparison
		x.R.Skipped = "order-sensitive"
		x.Probe("order-sensitive-skipped")
		return
	}
	if d.Kind == "value" && illConditioned(op, data) != "" {
		x.R.Skipped = "ill-conditioned"
		x.Probe("ill-conditioned-skipped")
		return
	}
	x.Viol(prop, "diff", key(d.Kind), fmt.Sprintf("%s [%d..%d step %d]: %s", op.Q, op.Start, op.End, op.Step, d.Detail))
}

// undecidable: a value/presence difference that comparison cannot adjudicate — the operand of a
// topk/bottomk has ties, or the reference's own answer depends on the order of its inputs.
func (x *X) undecidable(op Op, data []store.Series) bool {
	if op.hasTopK() && tieAmbiguous(op, data, op.Eng.LookbackMs) {
		x.R.Skipped = "tie"
		x.Probe("tie-skipped")
		return true
	}
	ref := RefQuery(op, data, op.Eng.LookbackMs)
	if ref.Res != nil && orderSensitive(op, data, ref.Res) {
		x.R.Skipped = "order-sensitive"
		x.Probe("order-sensitive-skipped")
		return true
	}
	// An aggregation that adds floats (sum, avg, stddev, stdvar) is evaluated by the engine in
	// another order than by the reference (shards, partitions); where the reference's own value
	// of such a sub-expression moves by more than 1e-12 relative when its input order changes, it
	// is ill-conditioned (stddev of nearly equal values) and what is built on it is only defined
	// "up to floating-point summation order".
	if sub := illConditioned(op, data); sub != "" {
		x.R.Skipped = "ill-conditioned"
		x.Probe("ill-conditioned-skipped")
		return true
	}
	// The reference engine hints a narrower range than it reads for timestamp(v @ t offset o)
	// (known finding C16): over a storage that honours the hints its own answer changes, so
	// whichever engine evaluated the query (native or fallback) there is no single reference.
	if ref.Res != nil && (x.C.Store.Trim || (op.Store != nil && op.Store.Trim)) {
		tr := refOnLB(op, store.New(data, store.Cfg{Trim: true}, true), op.Eng.LookbackMs)
		if tr.Res == nil || Compare(tr.Res, ref.Res, Tol).Kind != "" {
			x.R.Skipped = "trim-sensitive"
			x.Probe("trim-sensitive-skipped")
			return true
		}
	}
	return false
}

// illConditioned returns the first float-adding aggregation inside op.Q whose reference value
// depends on input order by more than 1e-12 relative.
func illConditioned(op Op, data []store.Series) string {
	if len(data) < 2 {
		return ""
	}
	expr, err := parser.ParseExpr(op.Q)
	if err != nil {
		return ""
	}
	var subs []string
	parser.Inspect(expr, func(n parser.Node, _ []parser.Node) error {
		if a, ok := n.(*parser.AggregateExpr); ok {
			switch a.Op {
			case parser.SUM, parser.AVG, parser.STDDEV, parser.STDVAR:
				subs = append(subs, a.String())
			}
		}
		return nil
	})
	for _, q := range subs {
		sop := op
		sop.Q = q
		base := RefQuery(sop, data, op.Eng.LookbackMs)
		if base.Res == nil {
			continue
		}
		for _, seed := range []int64{11, 23, 37, 41, 53, 67, 79, 83} {
			o := RefQueryPerm(sop, data, op.Eng.LookbackMs, seed)
			if o.Res == nil || relSpread(o.Res, base.Res) > 1e-12 {
				return q
			}
		}
	}
	// A float-adding aggregation that is itself well-conditioned can still sit exactly on a
	// discontinuity of what is built on it (avg(m) % 1 where the reference's mean is a whole
	// number and the engine's, added in another order, is one ulp below it). The reference is
	// asked again with that sub-expression moved by 1e-13 relative either way, four orders of
	// magnitude below the comparison tolerance: if its own answer then leaves the tolerance, the
	// query's value at this point is not defined "up to floating-point summation order".
	if len(subs) > 0 {
		whole := expr.String()
		full := op
		full.Q = whole
		base := RefQuery(full, data, op.Eng.LookbackMs)
		if base.Res != nil {
			for _, q := range subs {
				if q == whole || !strings.Contains(whole, q) {
					continue
				}
				for _, f := range []string{"1.0000000000001", "0.9999999999999"} {
					pop := op
					pop.Q = strings.ReplaceAll(whole, q, "("+q+" * "+f+")")
					if _, err := parser.ParseExpr(pop.Q); err != nil {
						continue
					}
					o := RefQuery(pop, data, op.Eng.LookbackMs)
					if o.Res != nil && Compare(o.Res, base.Res, Tol).Kind != "" {
						return q
					}
				}
			}
		}
	}
	return ""
}

// relSpread: the largest purely relative difference between corresponding values; +Inf when the
// results differ in anything but values.
func relSpread(a, b *Result) float64 {
	if Compare(a, b, math.Inf(1)).Kind != "" {
		return math.Inf(1)
	}
	bm := map[string][]Pt{}
	for _, s := range b.Series {
		bm[s.L] = s.Pts
	}
	worst := 0.0
	for _, s := range a.Series {
		for i, p := range s.Pts {
			x, y := float64(p.V), float64(bm[s.L][i].V)
			if x == y || math.IsNaN(x) || math.IsNaN(y) || math.IsInf(x, 0) || math.IsInf(y, 0) {
				continue
			}
			if d := math.Abs(x-y) / math.Max(math.Abs(x), math.Abs(y)); d > worst {
				worst = d
			}
		}
	}
	return worst
}

func orderSensitive(op Op, data []store.Series, base *Result) bool {
	if len(data) < 2 {
		return false
	}
	for _, seed := range []int64{11, 23, 37, 41, 53, 67, 79, 83} {
		o := RefQueryPerm(op, data, op.Eng.LookbackMs, seed)
		if o.Res == nil || Compare(o.Res, base, Tol).Kind != "" {
			return true
		}
	}
	return false
}

func (op Op) hasTopK() bool {
	return strings.Contains(op.Q, "topk") || strings.Contains(op.Q, "bottomk")
}
