package core

import (
	"errors"
	"fmt"
	"math/rand"
	"sort"
	"strings"
	"sync/atomic"
	"testing"

	"github.com/prometheus/prometheus/promql/parser"

	"github.com/thanos-community/promql-engine/execution/parse"

	"verifsim/store"
)

func init() {
	scenarios["vocab"] = scenario{main: vocabMain}
	generators["C08"] = GenVocab
}

type construct struct {
	name string
	text string
	typ  parser.ValueType
	sel  bool // a bare selector-like thing that takes offset / @
}

var vocabOnce []construct

func argFor(fn string, i int, t parser.ValueType, r *rand.Rand) string {
	switch t {
	case parser.ValueTypeVector:
		return []string{"m1", "m2", `m1{a="x"}`}[r.Intn(3)]
	case parser.ValueTypeMatrix:
		return []string{"m1[1m]", "m2[2m]", "m1[5m:1m]", "m1[90s] offset 30s"}[r.Intn(4)]
	case parser.ValueTypeScalar:
		if fn == "histogram_quantile" || fn == "quantile_over_time" || fn == "holt_winters" {
			return []string{"0.5", "0.9", "0.3"}[r.Intn(3)]
		}
		return []string{"2", "1", "0.5", "time()", "scalar(m1)"}[r.Intn(5)]
	case parser.ValueTypeString:
		switch fn {
		case "label_replace":
			return []string{`"x"`, `"dst"`, `"$1"`, `"a"`, `"(.*)"`}[i%5]
		case "label_join":
			return []string{`"x"`, `"dst"`, `"-"`, `"a"`, `"b"`}[i%5]
		}
		return `"l"`
	}
	return "1"
}

func buildVocab(r *rand.Rand) []construct {
	var out []construct
	var names []string
	for n := range parser.Functions {
		names = append(names, n)
	}
	sort.Strings(names)
	for _, n := range names {
		f := parser.Functions[n]
		nargs := len(f.ArgTypes)
		variants := []int{nargs}
		if f.Variadic != 0 {
			variants = []int{nargs - 1, nargs}
			if f.Variadic < 0 {
				variants = append(variants, nargs+1)
			}
		}
		for _, k := range variants {
			var args []string
			for i := 0; i < k; i++ {
				t := f.ArgTypes[len(f.ArgTypes)-1]
				if i < len(f.ArgTypes) {
					t = f.ArgTypes[i]
				}
				args = append(args, argFor(n, i, t, r))
			}
			out = append(out, construct{name: "func:" + n, text: fmt.Sprintf("%s(%s)", n, strings.Join(args, ", ")), typ: f.ReturnType})
		}
	}
	for _, a := range []string{"sum", "min", "max", "avg", "count", "group", "stddev", "stdvar"} {
		for _, g := range []string{"", " by (a)", " without (a)"} {
			out = append(out, construct{name: "aggr:" + a, text: fmt.Sprintf("%s%s (m1)", a, g), typ: parser.ValueTypeVector})
		}
	}
	for _, a := range []string{"topk(2, m1)", "bottomk(1, m1)", "quantile(0.5, m1)", `count_values("v", m1)`, "topk by (a) (1, m1)", `count_values by (a) ("v", m1)`, "quantile without (b) (0.9, m1)"} {
		out = append(out, construct{name: "aggr:" + strings.SplitN(a, "(", 2)[0], text: a, typ: parser.ValueTypeVector})
	}
	for _, op := range []string{"+", "-", "*", "/", "%", "^", "atan2", "==", "!=", ">", "<", ">=", "<=", "and", "or", "unless"} {
		mods := []string{"", " on (a)", " ignoring (b)"}
		set := op == "and" || op == "or" || op == "unless"
		if !set {
			mods = append(mods, " on (a) group_left", " ignoring (b) group_right (c)")
		}
		for _, m := range mods {
			out = append(out, construct{name: "binop:" + op, text: fmt.Sprintf("m1 %s%s m2", op, m), typ: parser.ValueTypeVector})
		}
		if !set {
			out = append(out, construct{name: "binop:" + op + ":vs", text: fmt.Sprintf("m1 %s 2", op), typ: parser.ValueTypeVector})
			b := ""
			if op == "==" || op == "!=" || op == ">" || op == "<" || op == ">=" || op == "<=" {
				b = " bool"
				out = append(out, construct{name: "binop:" + op + ":bool", text: fmt.Sprintf("m1 %s bool m2", op), typ: parser.ValueTypeVector})
			}
			out = append(out, construct{name: "binop:" + op + ":ss", text: fmt.Sprintf("3 %s%s 2", op, b), typ: parser.ValueTypeScalar})
		}
	}
	out = append(out,
		construct{name: "selector", text: "m1", typ: parser.ValueTypeVector, sel: true},
		construct{name: "selector:matchers", text: `m1{a=~"x|y",b!="z"}`, typ: parser.ValueTypeVector, sel: true},
		construct{name: "selector:noname", text: `{a="x"}`, typ: parser.ValueTypeVector, sel: true},
		construct{name: "matrix", text: "m1[1m]", typ: parser.ValueTypeMatrix, sel: true},
		construct{name: "subquery", text: "m1[5m:1m]", typ: parser.ValueTypeMatrix, sel: true},
		construct{name: "subquery:nostep", text: "rate(m1[1m])[5m:]", typ: parser.ValueTypeMatrix, sel: true},
		construct{name: "string", text: `"foo"`, typ: parser.ValueTypeString},
		construct{name: "number", text: "42", typ: parser.ValueTypeScalar},
		construct{name: "number:special", text: "NaN", typ: parser.ValueTypeScalar},
		construct{name: "unary", text: "-m1", typ: parser.ValueTypeVector},
		construct{name: "unary:plus", text: "+m1", typ: parser.ValueTypeVector},
		construct{name: "paren", text: "(m1)", typ: parser.ValueTypeVector},
	)
	return out
}

func place(c construct, r *rand.Rand) (string, string) {
	e := c.text
	if c.sel && r.Intn(2) == 0 {
		switch r.Intn(5) {
		case 0:
			e += " offset 30s"
		case 1:
			e += " offset -1m"
		case 2:
			e += " @ 1000"
		case 3:
			e += " @ start()"
		case 4:
			e += " @ end() offset 10s"
		}
	}
	var opts []func() (string, string)
	opts = append(opts, func() (string, string) { return e, "top" })
	switch c.typ {
	case parser.ValueTypeVector:
		opts = append(opts,
			func() (string, string) { return "abs(" + e + ")", "func-arg" },
			func() (string, string) { return "sum(" + e + ")", "aggr-operand" },
			func() (string, string) { return "sum by (a) (" + e + ")", "aggr-operand" },
			func() (string, string) { return "topk(1, " + e + ")", "aggr-operand" },
			func() (string, string) { return "topk(scalar(" + e + "), m1)", "aggr-param" },
			func() (string, string) { return "(" + e + ") + m2", "binary-lhs" },
			func() (string, string) { return "m2 * (" + e + ")", "binary-rhs" },
			func() (string, string) { return "(" + e + ") > 1", "binary-lhs" },
			func() (string, string) { return "((" + e + "))", "paren" },
			func() (string, string) { return "-(" + e + ")", "unary" },
			func() (string, string) { return "clamp_max(" + e + ", 100)", "func-arg" },
			func() (string, string) { return "max_over_time((" + e + ")[3m:1m])", "subquery" },
		)
	case parser.ValueTypeScalar:
		opts = append(opts,
			func() (string, string) { return "vector(" + e + ")", "func-arg" },
			func() (string, string) { return "clamp_min(m1, " + e + ")", "func-arg" },
			func() (string, string) { return "quantile(" + e + ", m1)", "aggr-param" },
			func() (string, string) { return "topk(" + e + ", m1)", "aggr-param" },
			func() (string, string) { return "(" + e + ") + m2", "binary-lhs" },
			func() (string, string) { return "m2 / (" + e + ")", "binary-rhs" },
			func() (string, string) { return "(" + e + ") + 1", "binary-lhs" },
			func() (string, string) { return "-(" + e + ")", "unary" },
		)
	case parser.ValueTypeMatrix:
		opts = append(opts,
			func() (string, string) { return "count_over_time(" + e + ")", "func-arg" },
			func() (string, string) { return "sum(rate(" + e + "))", "func-arg" },
			func() (string, string) { return "rate(" + e + ") + m2", "binary-lhs" },
		)
	}
	return opts[r.Intn(len(opts))]()
}

func vocabData() []store.Series {
	var out []store.Series
	mk := func(l []string, base float64) {
		s := store.Series{L: l}
		v := base
		for t := int64(0); t <= 1200000; t += 15000 {
			s.T = append(s.T, t)
			v += float64(1 + (t/15000)%3)
			s.V = append(s.V, store.F(v))
		}
		out = append(out, s)
	}
	mk([]string{"__name__", "m1", "a", "x", "b", "y"}, 1)
	mk([]string{"__name__", "m1", "a", "y", "b", "y"}, 5)
	mk([]string{"__name__", "m1", "a", "z", "c", "q"}, 9)
	mk([]string{"__name__", "m2", "a", "x", "b", "y"}, 2)
	mk([]string{"__name__", "m2", "a", "y", "b", "z"}, 3)
	mk([]string{"__name__", "m1", "a", "x", "b", "y", "le", "1"}, 10)
	mk([]string{"__name__", "m1", "a", "x", "b", "y", "le", "+Inf"}, 20)
	return out
}

func GenVocab(t *testing.T, r *rand.Rand, prop, tier string, _ *atomic.Int64) *Case {
	// arguments are redrawn per case (round(v, 1) would hide an ignored to_nearest)
	vocabOnce = buildVocab(rand.New(rand.NewSource(r.Int63())))
	// quick: a seeded sample; thorough: the vocabulary is walked by case index, positions drawn
	idx := r.Intn(len(vocabOnce))
	if tier == "thorough" {
		idx = CaseIndex % len(vocabOnce)
	}
	c := vocabOnce[idx]
	q, pos := place(c, r)
	if tier == "thorough" && r.Intn(5) == 0 {
		// random composition of two constructs
		c2 := vocabOnce[r.Intn(len(vocabOnce))]
		if c2.typ == parser.ValueTypeVector && c.typ == parser.ValueTypeVector {
			q = fmt.Sprintf("(%s) %s (%s)", q, []string{"+", "or", "unless", ">", "* on (a) group_left"}[r.Intn(5)], c2.text)
			pos = "composed"
		}
	}
	op := Op{Q: q, Start: 600000, End: 900000, Step: 30000, Shards: 1 + r.Intn(3), Eng: Eng{NoFallback: r.Intn(2) == 0, Optim: []string{"default", "none", "all"}[r.Intn(3)]}}
	if r.Intn(2) == 0 || c.typ == parser.ValueTypeMatrix && pos == "top" || c.typ == parser.ValueTypeString {
		op.End, op.Step = op.Start, 0
	}
	cs := &Case{Prop: prop, Scen: "vocab", Data: vocabData(), Ops: []Op{op}, Sched: Sched{Strategy: pickStrategy(r), Seed: r.Int63()}, Store: drawStore(r)}
	cs.Var = map[string]any{"construct": c.name, "position": pos, "clients": 2 + r.Intn(3)}
	return cs
}

func vocabMain(x *X) {
	c := x.C
	op := c.Ops[0]
	name, _ := c.Var["construct"].(string)
	pos, _ := c.Var["position"].(string)
	x.Probe("position:" + pos)
	st := store.New(c.Data, c.Store, false)
	eng := NewEngine(op.Eng, nil)
	o := RunQuery(QueryRun{Op: op, Eng: eng, Store: st, Sim: x.S, Acct: st, Contract: true})
	x.R.Evals++
	x.S.Drain()
	x.queryOracles(o, op, st)
	ref := RefQuery(op, c.Data, op.Eng.LookbackMs)
	key := func(kind string) string {
		fb := "fallback-on"
		if op.Eng.NoFallback {
			fb = "fallback-off"
		}
		return kind + "|" + name + "|" + pos + "|" + fb
	}
	desc := fmt.Sprintf("%s [%s, %s, %s]", op.Q, name, pos, map[bool]string{true: "fallback disabled", false: "fallback enabled"}[op.Eng.NoFallback])
	x.R.Nontrivial = true
	if o.ClientPanic != "" {
		// C13 reports the panic; for C08 a query the reference accepts was neither answered nor
		// rejected as unsupported
		if ref.Created {
			x.Viol("C08", "vocab", key("panic-instead-of-answer"), fmt.Sprintf("%s: creation/Exec panicked (%s) although the reference engine accepts the query", desc, firstFrame(o.ClientPanic)))
		}
		return
	}
	if o.Fallback {
		x.Probe("path:fallback")
	} else if o.Created {
		x.Probe("path:native")
	}
	switch {
	case !ref.Created:
		if o.Created {
			x.Viol("C08", "vocab", key("accepted-but-reference-rejects"), fmt.Sprintf("%s: engine accepted, reference rejects with %q", desc, ref.CreateErr))
		}
		return
	case !o.Created && !op.Eng.NoFallback:
		x.Viol("C08", "vocab", key("rejected-with-fallback-enabled"), fmt.Sprintf("%s: creation failed with %q although the reference engine accepts the query", desc, o.CreateErr))
		return
	case !o.Created:
		x.Probe("rejected-unsupported")
		if !o.Unsupported {
			x.Viol("C08", "vocab", key("rejection-not-marked-unsupported"), fmt.Sprintf("%s: creation failed with %q, which is neither ErrNotSupportedExpr nor ErrNotImplemented", desc, o.CreateErr))
		}
		return
	}
	if o.DNative+o.DFallback != 1 || (o.DFallback == 1) != o.Fallback {
		x.Viol("C08", "counter", key("counter-delta"), fmt.Sprintf("%s: per-path counter moved by native=%v fallback=%v for one created query", desc, o.DNative, o.DFallback))
	}
	if o.QueryType != "" && strings.Contains(o.QueryType, "allback") != o.Fallback {
		x.Viol("C08", "counter", key("counter-path"), fmt.Sprintf("%s: the engine returned a %s but counted the query as fallback=%v", desc, o.QueryType, o.Fallback))
	}
	if o.Fallback && op.Eng.NoFallback {
		x.Viol("C08", "vocab", key("fallback-although-disabled"), fmt.Sprintf("%s: counted as fallback although fallback is disabled", desc))
	}
	if o.ErrVal != nil && (errors.Is(o.ErrVal, parse.ErrNotSupportedExpr) || errors.Is(o.ErrVal, parse.ErrNotImplemented)) {
		x.Viol("C08", "vocab", key("unsupported-at-exec"), fmt.Sprintf("%s: Exec reported %q: support must be decided at creation", desc, o.Err))
		return
	}
	if (o.Err != "") != (ref.Err != "") {
		x.Viol("C08", "vocab", key("error-mismatch"), fmt.Sprintf("%s: engine error %q, reference error %q (path: fallback=%v)", desc, o.Err, ref.Err, o.Fallback))
		return
	}
	if o.Err == "" {
		if d := Compare(o.Res, ref.Res, Tol); d.Kind != "" {
			if !x.undecidable(op, c.Data) {
				x.Viol("C08", "vocab", key(d.Kind), fmt.Sprintf("%s: %s (path: fallback=%v)", desc, d.Detail, o.Fallback))
			}
		}
	}
	// conservation of the per-path counter under concurrent creation
	k := 3
	if v, ok := c.Var["clients"].(float64); ok {
		k = int(v)
	}
	n0, f0 := eng.counters()
	done := make(chan [2]int, k)
	for i := 0; i < k; i++ {
		i := i
		x.S.Go("client", i, func() {
			created := 0
			cop := op
			if i%2 == 1 {
				cop.Q = "sum(m2)"
			}
			sched_yield()
			q, err := newQuery(eng, st, cop)
			sched_yield()
			if err == nil {
				created = 1
				q.Close()
			}
			done <- [2]int{created, 0}
		})
	}
	total := 0
	for i := 0; i < k; i++ {
		v := <-done
		total += v[0]
	}
	n1, f1 := eng.counters()
	if int((n1-n0)+(f1-f0)) != total {
		x.Viol("C08", "counter", key("counter-conservation"), fmt.Sprintf("%s: %d queries created concurrently, counter moved by %v", desc, total, (n1-n0)+(f1-f0)))
	}
}
