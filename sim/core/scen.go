package core

import (
	"fmt"
	"math/rand"
	"regexp"
	"sort"
	"strings"
	"sync/atomic"
	"testing"

	"github.com/prometheus/prometheus/promql/parser"

	"verifsim/sched"
	"verifsim/store"
)

// RunResult is what running one case produced.
type RunResult struct {
	Violations []Violation    `json:"violations,omitempty"`
	Evals      int            `json:"evals"`
	Nontrivial bool           `json:"nontrivial"`
	Skipped    string         `json:"skipped,omitempty"`
	Infra      string         `json:"infra,omitempty"`
	Steps      int            `json:"steps"`
	FakeNanos  int64          `json:"fake_nanos"`
	Hash       string         `json:"hash"`
	Tape       []uint16       `json:"-"`
	Fired      map[string]int `json:"fired,omitempty"`
	Probes     map[string]int `json:"probes,omitempty"`
	Pairs      map[string]int `json:"-"`
	Log        []string       `json:"-"`
	Brief      string         `json:"brief,omitempty"`
	RaceSites  []string       `json:"race_sites,omitempty"` // free-running under the race detector: engine statements named by a report
	Dry        *DryInfo       `json:"-"`
}

// DryInfo is what a fault-free dry run measured; fault positions are drawn from it.
type DryInfo struct {
	N        int     // storage callbacks
	Kinds    []uint8 // kind per callback
	Steps    int     // scheduling steps of the whole dry run
	Start    int     // step at which Exec started
	End      int     // step at which Exec returned
	FirstCB  int
	Fallback bool
	Failed   bool
}

// X is the context handed to a scenario body.
type X struct {
	T   *testing.T
	S   *sched.Sim
	C   *Case
	R   *RunResult
	Pre map[string]*Outcome // outcomes of the fault-free dry run(s)
	mu  chan struct{}
}

func (x *X) Viol(prop, oracle, key, detail string) {
	x.R.Violations = append(x.R.Violations, Violation{Prop: prop, Oracle: oracle, Key: key, Detail: detail})
}

func (x *X) Probe(name string) { x.R.Probes[name]++ }

func (x *X) Fire(m map[string]int) {
	for k, v := range m {
		x.R.Fired[k] += v
	}
}

type scenario struct {
	pre  func(x *X) // optional dry run, own bubble, boring schedule
	main func(x *X)
	free bool // runs free on real goroutines (race detector half of C12), not under the scheduler
}

var scenarios = map[string]scenario{}

func schedCfg(s Sched, verbose bool) sched.Config {
	return sched.Config{Strategy: s.Strategy, Seed: s.Seed, Tape: s.Tape, Verbose: verbose, Auto: s.Auto}
}

// RunCase executes the case: optional dry run in its own bubble under the boring schedule, then
// the scenario body under the case's schedule. Pure function of the case document and the code.
func RunCase(t *testing.T, c *Case, progress *atomic.Int64, verbose bool) *RunResult {
	r := &RunResult{Fired: map[string]int{}, Probes: map[string]int{}}
	sc, ok := scenarios[c.Scen]
	if !ok {
		r.Infra = "unknown scenario " + c.Scen
		return r
	}
	x := &X{T: t, C: c, R: r, Pre: map[string]*Outcome{}}
	if sc.free {
		func() {
			defer func() {
				if p := recover(); p != nil {
					r.Infra = fmt.Sprint("panic in free-running scenario: ", p)
				}
			}()
			sc.main(x)
		}()
		return r
	}
	if sc.pre != nil {
		rep := sched.Run(t, sched.Config{Strategy: "first", Auto: c.Sched.Auto}, progress, func(s *sched.Sim) {
			x.S = s
			sc.pre(x)
		})
		x.generic(rep, "pre")
		if len(r.Violations) > 0 || r.Infra != "" {
			r.Steps += rep.Steps
			return r
		}
	}
	rep := sched.Run(t, schedCfg(c.Sched, verbose), progress, func(s *sched.Sim) {
		x.S = s
		sc.main(x)
	})
	x.generic(rep, "main")
	r.Steps += rep.Steps
	r.FakeNanos += rep.FakeNanos
	r.Hash = fmt.Sprintf("%016x", rep.Hash)
	r.Tape = rep.Tape
	r.Pairs = rep.Pairs
	r.Log = rep.Log
	return r
}

var reNum = regexp.MustCompile(`#\d+\.\d+`)

func siteOf(task string) string { return reNum.ReplaceAllString(task, "") }

// generic turns scheduler-level observations into violations.
func (x *X) generic(rep sched.Report, phase string) {
	for _, p := range rep.Panics {
		site := siteOf(p.Task)
		if strings.HasPrefix(site, "main") || strings.HasPrefix(site, "client") || strings.HasPrefix(site, "canceller") {
			x.R.Infra = "harness panic on " + p.Task + ": " + p.Value + " | " + p.Stack
			continue
		}
		x.Viol("C13", "escaped-panic", "escaped-panic@"+site, fmt.Sprintf("panic on goroutine %s would kill the process: %s | %s", p.Task, p.Value, p.Stack))
	}
	if rep.Deadlock {
		x.Viol("C14", "deadlock", "deadlock:"+sites(rep.Blocked), "nothing runnable, no timer pending, Exec has not returned; alive: "+strings.Join(rep.Blocked, ","))
	}
	if rep.Leaked {
		x.Viol("C14", "goroutine-leak", "leak:"+sites(rep.Blocked), "goroutines still blocked after the scenario finished: "+strings.Join(rep.Blocked, ","))
	}
	if rep.Overrun {
		// a very long case (many operations x many steps x automatic yield points), cut off at the
		// step budget: nothing is concluded from it; counted, so that a change that makes cases run
		// away shows in the evidence
		x.R.Skipped = "step-budget"
		x.Probe("step-budget-exceeded:" + phase)
	}
	if rep.BubbleErr != "" && !rep.Deadlock && !rep.Leaked {
		if strings.Contains(rep.BubbleErr, "deadlock") || strings.Contains(rep.BubbleErr, "blocked goroutines") {
			x.Viol("C14", "goroutine-leak", "leak:unregistered", "synctest: "+rep.BubbleErr)
		} else {
			x.R.Infra = "bubble: " + rep.BubbleErr
		}
	}
}

func sites(tasks []string) string {
	m := map[string]bool{}
	for _, t := range tasks {
		m[siteOf(t)] = true
	}
	var l []string
	for k := range m {
		l = append(l, k)
	}
	sort.Strings(l)
	return strings.Join(l, ",")
}

// ---- violation keys -------------------------------------------------------------------------

var reDur = regexp.MustCompile(`\[[^\]]+\]`)

// Shape normalises an expression for violation keys: metric names, label names and values,
// numbers and durations are replaced by classes; structure, functions, operators and modifiers stay.
func Shape(q string) string {
	expr, err := parser.ParseExpr(q)
	if err != nil {
		return "unparsable"
	}
	return shape(expr)
}

func numClass(v float64) string {
	switch {
	case v != v:
		return "NaN"
	case v > 1e18:
		return "huge"
	case v < -1e18:
		return "-huge"
	case v == 0:
		return "0"
	case v < 0:
		return "neg"
	case v == float64(int64(v)):
		return "N"
	}
	return "frac"
}

func shape(e parser.Expr) string {
	switch n := e.(type) {
	case *parser.NumberLiteral:
		return numClass(n.Val)
	case *parser.StringLiteral:
		return "str"
	case *parser.VectorSelector:
		s := "m"
		extra := 0
		for _, m := range n.LabelMatchers {
			if m.Name != "__name__" {
				extra++
			}
		}
		if extra > 0 {
			s += "{..}"
		}
		return s + mods(n.OriginalOffset != 0, n.Timestamp != nil || n.StartOrEnd != 0)
	case *parser.MatrixSelector:
		vs := n.VectorSelector.(*parser.VectorSelector)
		s := "m"
		if len(vs.LabelMatchers) > 1 {
			s += "{..}"
		}
		rs := "[r]"
		if n.Range.Milliseconds()%1000 != 0 {
			rs = "[r%1s]"
		}
		return s + rs + mods(vs.OriginalOffset != 0, vs.Timestamp != nil || vs.StartOrEnd != 0)
	case *parser.SubqueryExpr:
		return shape(n.Expr) + "[r:s]"
	case *parser.Call:
		var a []string
		for _, x := range n.Args {
			a = append(a, shape(x))
		}
		return n.Func.Name + "(" + strings.Join(a, ",") + ")"
	case *parser.AggregateExpr:
		s := n.Op.String()
		if n.Without {
			s += " without"
		} else if len(n.Grouping) > 0 {
			s += " by"
		}
		if n.Without || len(n.Grouping) > 0 {
			hasName := false
			for _, g := range n.Grouping {
				if g == "__name__" {
					hasName = true
				}
			}
			if hasName {
				s += "(__name__..)"
			} else if len(n.Grouping) == 0 {
				s += "()"
			} else {
				s += "(..)"
			}
		}
		s += "("
		if n.Param != nil {
			s += shape(n.Param) + ","
		}
		return s + shape(n.Expr) + ")"
	case *parser.BinaryExpr:
		s := shape(n.LHS) + " " + n.Op.String()
		if n.ReturnBool {
			s += " bool"
		}
		if vm := n.VectorMatching; vm != nil {
			if vm.On {
				s += " on"
			} else if len(vm.MatchingLabels) > 0 {
				s += " ignoring"
			}
			switch vm.Card {
			case parser.CardManyToOne:
				s += " group_left"
			case parser.CardOneToMany:
				s += " group_right"
			}
			if len(vm.Include) > 0 {
				s += "(inc)"
			}
		}
		return s + " " + shape(n.RHS)
	case *parser.ParenExpr:
		return "(" + shape(n.Expr) + ")"
	case *parser.UnaryExpr:
		return n.Op.String() + shape(n.Expr)
	case *parser.StepInvariantExpr:
		return shape(n.Expr)
	}
	return fmt.Sprintf("%T", e)
}

func mods(off, at bool) string {
	s := ""
	if off {
		s += " offset"
	}
	if at {
		s += " @"
	}
	return s
}

func windowClass(op Op) string {
	if op.Step == 0 {
		return "instant"
	}
	n := (op.End-op.Start)/op.Step + 1
	switch {
	case n == 1:
		return "range1"
	case n <= 10:
		return "range<=10"
	}
	return "range>10"
}

// ---- generic per-query oracles (C13 client side, C17, C18, C19) ------------------------------

func (x *X) queryOracles(o *Outcome, op Op, st *store.Store) {
	if o.ClientPanic != "" {
		x.Viol("C13", "client-panic", "client-panic:"+firstFrame(o.ClientPanic), "panic escaped query creation/Exec on the caller's goroutine: "+o.ClientPanic)
	}
	if o.CancelPanic != "" {
		x.Viol("C13", "client-panic", "cancel-panic:"+firstFrame(o.CancelPanic), fmt.Sprintf("%s: panic inside Cancel()/Close() called from a second goroutine while the query %s: %s", op.Q, map[bool]string{true: "was executing", false: "had returned"}[o.ExecEnd == 0], o.CancelPanic))
	}
	for k, d := range o.Contract {
		x.Viol("C18", "contract", k, d)
	}
	x.R.Probes["operator-edges-checked"] += o.ContractStats[0]
	x.R.Probes["next-calls-checked"] += o.ContractStats[1]
	x.R.Probes["series-calls-checked"] += o.ContractStats[2]
	x.R.Probes["ended-streams-probed"] += o.ContractStats[3]
	for _, w := range o.WF {
		k := w
		if i := strings.Index(w, ":"); i > 0 {
			k = w[:i]
		}
		x.Viol("C19", "wellformed", k+"|"+Shape(op.Q), w+" in result of "+op.Q)
	}
	if o.Acct != nil {
		for i, q := range o.Acct.Queriers {
			switch {
			case q.Closes == 0:
				x.Viol("C17", "querier-not-closed", "querier-not-closed", fmt.Sprintf("querier %d opened at step %d never closed (Exec returned at step %d)", i, q.OpenStep, o.ExecEnd))
			case q.Closes > 1:
				x.Viol("C17", "querier-closed-twice", "querier-closed-twice", fmt.Sprintf("querier %d closed %d times", i, q.Closes))
			case o.ExecEnd > 0 && q.CloseStep > o.ExecEnd:
				x.Viol("C17", "querier-closed-late", "querier-closed-late", fmt.Sprintf("querier %d closed at step %d, Exec returned at step %d", i, q.CloseStep, o.ExecEnd))
			}
		}
		x.Fire(o.Acct.Fired)
	}
	if st != nil {
		if err := st.SharedIntact(); err != nil {
			x.Viol("C17", "storage-data-modified", "storage-data-modified|"+Shape(op.Q), err.Error()+" after "+op.Q)
		}
	}
}

func firstFrame(s string) string {
	parts := strings.Split(s, " | ")
	for _, p := range parts[1:] {
		if strings.Contains(p, "promql-engine/") && strings.Contains(p, "(") && !strings.Contains(p, ".go:") {
			p = p[strings.LastIndex(p, "/")+1:]
			if i := strings.LastIndex(p, "("); i > 0 {
				p = p[:i]
			}
			return p
		}
	}
	return "?"
}

func pickStrategy(r *rand.Rand) string {
	// starve:main lets the engine's goroutines run as far ahead of the consumer as their buffers
	// allow; the other starve:* hold one kind of engine goroutine back as long as anything else can run
	return []string{"first", "random", "random", "rtb", "rtb", "pct", "pct", "starve:conc.drain", "starve:conc.pull", "starve:worker", "starve:coal", "starve:main", "starve:main"}[r.Intn(13)]
}

var reNumAny = regexp.MustCompile(`[0-9]+`)

func sortStrings(l []string) { sort.Strings(l) }
