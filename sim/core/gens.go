package core

import (
	"math"
	"math/rand"
	"sync/atomic"
	"testing"

	"verifsim/store"
)

func init() {
	for _, p := range []string{"C01", "C02", "C03", "C04", "C05", "C06"} {
		generators[p] = func(t *testing.T, r *rand.Rand, prop, tier string, _ *atomic.Int64) *Case {
			return GenDiff(r, prop, tier)
		}
	}
	// C18 (operator contract) and C19 (well-formed results) are oracles applied to every query
	// of every scenario; their checks run a mixture of the other properties' workloads.
	generators["C18"] = func(t *testing.T, r *rand.Rand, prop, tier string, pg *atomic.Int64) *Case {
		var c *Case
		switch k := r.Intn(20); {
		case k < 10:
			c = GenDiff(r, []string{"C01", "C04", "C05", "C06", "C03", "C02"}[r.Intn(6)], tier)
			c.Ops[0].WrapMode = r.Intn(4)
		case k < 14:
			c = GenDist(t, r, prop, tier, pg)
			c.Ops[0].WrapMode = r.Intn(4)
		case k < 16:
			c = GenRVI(t, r, prop, tier, pg)
		case k < 18:
			c = GenConfig(t, r, prop, tier, pg)
		case k < 19:
			c = GenFault(t, r, "C14", tier, pg)
		default:
			// a storage error in the middle of a stream: it has to travel up every operator
			c = GenFault(t, r, "C15", tier, pg)
		}
		if c != nil {
			c.Prop = prop
		}
		return c
	}
	generators["C19"] = func(t *testing.T, r *rand.Rand, prop, tier string, pg *atomic.Int64) *Case {
		var c *Case
		switch k := r.Intn(20); {
		case k < 7:
			c = GenDiff(r, "C19", tier) // profile "extreme": values outside the comparison-safe domain
		case k < 13:
			// nested aggregations above look-ahead goroutines are where buffers get recycled
			c = GenDiff(r, []string{"C05", "C04", "C04", "C04", "C06", "C02", "C03", "C03"}[r.Intn(8)], tier)
		case k < 16:
			c = GenDist(t, r, prop, tier, pg)
		case k < 18:
			c = GenOptim(t, r, prop, tier, pg)
		default:
			c = GenHistory(t, r, prop, tier, pg)
		}
		if c != nil {
			c.Prop = prop
		}
		return c
	}
	// C13: half fault cases (runtime panics inside storage callbacks), half parameter extremes and
	// degenerate data run through the differential scenario (only C13 findings are reported:
	// panics escaping a goroutine, panics escaping Exec).
	generators["C13"] = func(t *testing.T, r *rand.Rand, prop, tier string, pg *atomic.Int64) *Case {
		if r.Intn(2) == 0 {
			return GenFault(t, r, prop, tier, pg)
		}
		c := GenDiff(r, []string{"C04", "C04", "C06", "C05", "C01"}[r.Intn(5)], tier)
		c.Prop = prop
		switch r.Intn(8) {
		case 0:
			c.Data = nil // no series
		case 1:
			for i := range c.Data { // series without samples
				c.Data[i].T, c.Data[i].V = nil, nil
			}
		case 2:
			for i := range c.Data { // a single sample each
				if len(c.Data[i].T) > 1 {
					k := r.Intn(len(c.Data[i].T))
					c.Data[i].T, c.Data[i].V = c.Data[i].T[k:k+1], c.Data[i].V[k:k+1]
				}
			}
		case 3:
			for i := range c.Data { // all NaN
				for j := range c.Data[i].V {
					c.Data[i].V[j] = store.F(math.NaN())
				}
			}
		}
		return c
	}
	base17 := GenFault
	generators["C17"] = func(t *testing.T, r *rand.Rand, prop, tier string, pg *atomic.Int64) *Case {
		var c *Case
		switch k := r.Intn(20); {
		case k < 13:
			c = base17(t, r, prop, tier, pg)
		case k < 17:
			c = GenHistory(t, r, prop, tier, pg)
			if c != nil {
				c.Store.SharedLabels = true
			}
		default:
			c = GenDist(t, r, prop, tier, pg)
			if c != nil {
				c.Store.SharedLabels = true
			}
		}
		if c != nil {
			c.Prop = prop
		}
		return c
	}
}
