package core

import (
	"math/rand"
	"sync/atomic"
	"testing"
)

func init() {
	for _, p := range []string{"C01", "C02", "C03", "C04", "C05", "C06"} {
		generators[p] = func(t *testing.T, r *rand.Rand, prop, tier string, _ *atomic.Int64) *Case {
			return GenDiff(r, prop, tier)
		}
	}
	// C18 (operator contract) and C19 (well-formed results) are oracles applied to every query
	// of every scenario; their checks run a mixture of the other properties' workloads.
	generators["C18"] = func(t *testing.T, r *rand.Rand, prop, tier string, pg *atomic.Int64) *Case {
		var c *Case
		switch k := r.Intn(20); {
		case k < 10:
			c = GenDiff(r, []string{"C01", "C04", "C05", "C06", "C03", "C02"}[r.Intn(6)], tier)
			c.Ops[0].WrapMode = r.Intn(4)
		case k < 14:
			c = GenDist(t, r, prop, tier, pg)
			c.Ops[0].WrapMode = r.Intn(4)
		case k < 16:
			c = GenRVI(t, r, prop, tier, pg)
		case k < 18:
			c = GenConfig(t, r, prop, tier, pg)
		default:
			c = GenFault(t, r, "C14", tier, pg)
		}
		if c != nil {
			c.Prop = prop
		}
		return c
	}
	generators["C19"] = func(t *testing.T, r *rand.Rand, prop, tier string, pg *atomic.Int64) *Case {
		var c *Case
		switch k := r.Intn(20); {
		case k < 9:
			c = GenDiff(r, "C19", tier) // profile "extreme": values outside the comparison-safe domain
		case k < 13:
			c = GenDiff(r, []string{"C05", "C04", "C06", "C02"}[r.Intn(4)], tier)
		case k < 16:
			c = GenDist(t, r, prop, tier, pg)
		case k < 18:
			c = GenOptim(t, r, prop, tier, pg)
		default:
			c = GenHistory(t, r, prop, tier, pg)
		}
		if c != nil {
			c.Prop = prop
		}
		return c
	}
	base17 := GenFault
	generators["C17"] = func(t *testing.T, r *rand.Rand, prop, tier string, pg *atomic.Int64) *Case {
		var c *Case
		switch k := r.Intn(20); {
		case k < 13:
			c = base17(t, r, prop, tier, pg)
		case k < 17:
			c = GenHistory(t, r, prop, tier, pg)
			if c != nil {
				c.Store.SharedLabels = true
			}
		default:
			c = GenDist(t, r, prop, tier, pg)
			if c != nil {
				c.Store.SharedLabels = true
			}
		}
		if c != nil {
			c.Prop = prop
		}
		return c
	}
}
