package core

import (
	"math/rand"
	"sync/atomic"
	"testing"
)

func init() {
	for _, p := range []string{"C01", "C02", "C03", "C04", "C05", "C06"} {
		generators[p] = func(t *testing.T, r *rand.Rand, prop, tier string, _ *atomic.Int64) *Case {
			return GenDiff(r, prop, tier)
		}
	}
}
