package core

import (
	"sync/atomic"
	"testing"
)

// Minimize is filled in later (minimize2.go); this stub keeps the first end-to-end run simple.
var minimizeImpl func(t *testing.T, c *Case, v Violation, progress *atomic.Int64, budget int) (*Case, Violation)

func Minimize(t *testing.T, c *Case, v Violation, progress *atomic.Int64, budget int) (*Case, Violation) {
	if minimizeImpl == nil {
		return c, v
	}
	return minimizeImpl(t, c, v, progress, budget)
}
