package core

import (
	"fmt"
	"math/rand"
	"strings"
	"sync/atomic"
	"testing"

	"verifsim/gen"
	"verifsim/store"
)

func init() {
	scenarios["rvi"] = scenario{main: rviMain}
	scenarios["multi"] = scenario{main: multiMain}
	generators["C07"] = GenRVI
	generators["C09"] = GenOptim
	generators["C11"] = GenConfig
}

// anyErrText strips the "t=...: " prefix of the first failing instant query.
func anyErrText(s string) string {
	if i := strings.Index(s, ": "); i >= 0 {
		return s[i+2:]
	}
	return s
}

func scalarAsMatrix(r *Result) *Result {
	if r == nil || r.Type != "scalar" {
		return r
	}
	c := *r
	c.Series = []RSeries{{L: "{}", Pts: r.Series[0].Pts}}
	return &c
}

// extraSeries: unrelated series the query cannot match (metric names the generators never use).
func extraSeries(seed int64, w gen.Window) []store.Series {
	r := rand.New(rand.NewSource(seed))
	data := gen.GenData(r, w, gen.DataOpt{MinSeries: 1, MaxSeries: 6, Metrics: []string{"zz1", "zz2"}, PStale: 0.02})
	// no label of the generators' universe: a selector without a metric name must not match them
	for i := range data {
		l := data[i].L
		for j := 0; j+1 < len(l); j += 2 {
			if l[j] != "__name__" {
				l[j] = "z" + l[j]
			}
		}
	}
	return data
}

func opStore(c *Case, op Op) (*store.Store, []store.Series) {
	cfg := c.Store
	if op.Store != nil {
		cfg = *op.Store
	}
	data := c.Data
	if op.ExtraSeed != 0 {
		data = append(append([]store.Series{}, c.Data...), extraSeries(op.ExtraSeed, gen.Window{Start: op.Start, End: op.End, Step: op.Step})...)
	}
	return store.New(data, cfg, false), data
}

// ---- C07: a range query equals the sequence of instant queries on its grid -------------------

func GenRVI(t *testing.T, r *rand.Rand, prop, tier string, _ *atomic.Int64) *Case {
	w, q, data, el, ql, _ := GenQueryOpt(r, []string{"compose", "compose", "func", "aggr", "binary", "rangefn", "selector"}[r.Intn(7)], 0, 0, true)
	if w.Steps() > 40 && r.Intn(3) != 0 {
		w.End = w.Start + int64(r.Intn(36))*w.Step
	}
	op := Op{Q: q, Start: w.Start, End: w.End, Step: w.Step, QLookbackMs: ql, Shards: 1 + r.Intn(8),
		Eng: Eng{LookbackMs: el, Optim: []string{"default", "none", "all"}[r.Intn(3)]}}
	c := &Case{Prop: prop, Scen: "rvi", Data: data, Ops: []Op{op}, Sched: Sched{Strategy: pickStrategy(r), Seed: r.Int63()}, Store: drawStore(r)}
	n := w.Steps()
	a := r.Intn(n)
	b := a + r.Intn(n-a)
	c.Var = map[string]any{"sub": []int{a, b}, "shard_seed": r.Intn(1000)}
	return c
}

func rviMain(x *X) {
	c := x.C
	op := c.Ops[0]
	run := func(o Op) *Outcome {
		st := store.New(c.Data, c.Store, false)
		out := RunQuery(QueryRun{Op: o, Eng: NewEngine(o.Eng, nil), Store: st, Sim: x.S, Acct: st, Contract: true})
		x.R.Evals++
		x.S.Drain()
		x.queryOracles(out, o, st)
		return out
	}
	shape := Shape(op.Q)
	full := run(op)
	if !full.Created {
		x.R.Skipped = "not-created"
		return
	}
	x.R.Nontrivial = full.Err != "" || (full.Res != nil && full.Res.Points() > 0)
	if full.ClientPanic != "" {
		return
	}
	n := int((op.End-op.Start)/op.Step) + 1
	shardSeed := 0
	if v, ok := c.Var["shard_seed"].(float64); ok {
		shardSeed = int(v)
	} else if v, ok := c.Var["shard_seed"].(int); ok {
		shardSeed = v
	}
	want := map[string]map[int64]float64{}
	anyErr := ""
	for i := 0; i < n; i++ {
		t := op.Start + int64(i)*op.Step
		iop := op
		iop.Start, iop.End, iop.Step = t, t, 0
		iop.Shards = 1 + (shardSeed+i)%8
		o := run(iop)
		if o.ClientPanic != "" {
			return
		}
		if o.Err != "" {
			anyErr = fmt.Sprintf("t=%d: %s", t, o.Err)
			continue
		}
		for _, s := range scalarAsMatrix(o.Res).Series {
			m := want[s.L]
			if m == nil {
				m = map[int64]float64{}
				want[s.L] = m
			}
			for _, p := range s.Pts {
				m[p.T] = float64(p.V)
			}
		}
	}
	if (full.Err != "") != (anyErr != "") {
		if op.hasTopK() && tieAmbiguous(op, c.Data, op.Eng.LookbackMs) {
			x.R.Skipped = "tie"
			return
		}
		x.Viol("C07", "range-vs-instant", "error-mismatch|"+errClass(full.Err+anyErrText(anyErr))+"|"+shape, fmt.Sprintf("%s [%d..%d step %d]: range query error %q, instant queries: %q", op.Q, op.Start, op.End, op.Step, full.Err, anyErr))
		return
	}
	if full.Err != "" {
		return
	}
	got := map[string]map[int64]float64{}
	for _, s := range full.Res.Series {
		m := map[int64]float64{}
		got[s.L] = m
		for _, p := range s.Pts {
			m[p.T] = float64(p.V)
		}
	}
	mismatch := func(kind, detail string) {
		if x.undecidable(op, c.Data) {
			return
		}
		x.Viol("C07", "range-vs-instant", kind+"|"+shape, fmt.Sprintf("%s [%d..%d step %d]: %s", op.Q, op.Start, op.End, op.Step, detail))
	}
	for l, m := range want {
		for t, v := range m {
			g, ok := got[l][t]
			if !ok {
				mismatch("missing-point", fmt.Sprintf("instant query at %d returns %s=%s, the range query has no point there", t, l, fmtF(v)))
				return
			}
			if !sameVal(g, v, Tol) {
				mismatch("value", fmt.Sprintf("%s at %d: range %s, instant %s", l, t, fmtF(g), fmtF(v)))
				return
			}
		}
	}
	for l, m := range got {
		for t, v := range m {
			if _, ok := want[l][t]; !ok {
				mismatch("extra-point", fmt.Sprintf("range query has %s=%s at %d, the instant query at %d has no such sample", l, fmtF(v), t, t))
				return
			}
		}
	}
	// sub-window law
	if sub, ok := c.Var["sub"].([]any); ok && len(sub) == 2 {
		a, b := int(sub[0].(float64)), int(sub[1].(float64))
		if a >= 0 && b >= a && b < n {
			sop := op
			sop.Start, sop.End = op.Start+int64(a)*op.Step, op.Start+int64(b)*op.Step
			sop.Shards = 1 + (shardSeed+3)%8
			so := run(sop)
			if so.ClientPanic != "" || so.Err != "" {
				return
			}
			restricted := &Result{Type: full.Res.Type}
			for _, s := range full.Res.Series {
				rs := RSeries{L: s.L}
				for _, p := range s.Pts {
					if p.T >= sop.Start && p.T <= sop.End {
						rs.Pts = append(rs.Pts, p)
					}
				}
				if len(rs.Pts) > 0 {
					restricted.Series = append(restricted.Series, rs)
				}
			}
			if d := Compare(so.Res, restricted, Tol); d.Kind != "" {
				mismatch("sub-window-"+d.Kind, fmt.Sprintf("sub-window [%d..%d]: %s", sop.Start, sop.End, d.Detail))
			}
		}
	}
}

// ---- multi: the same query under several configurations; Ops[0] is the base -----------------
// C09 (optimizer sets) and C11 (shards, storage order, extra series, yields/delays) use it; the
// oracle is agreement of every variant with the base.

func multiMain(x *X) {
	c := x.C
	base := c.Ops[0]
	prop := c.Prop
	if p, ok := c.Var["prop"].(string); ok {
		prop = p
	}
	shape := Shape(base.Q)
	var bo *Outcome
	var baseSt *store.Store
	for i, op := range c.Ops {
		st, _ := opStore(c, op)
		if i == 0 {
			baseSt = st
		} else if op.Tag == "repeat" && op.ExtraSeed == 0 {
			// the plain repetition reads the very storage the base read: what the first
			// query did to data the storage shares (label slices) is part of its input
			st = baseSt
		}
		o := RunQuery(QueryRun{Op: op, Eng: NewEngine(op.Eng, nil), Store: st, Sim: x.S, Acct: st, Contract: true})
		x.R.Evals++
		x.S.Drain()
		x.queryOracles(o, op, st)
		if i == 0 {
			bo = o
			x.R.Nontrivial = o.Created && (o.Err != "" || (o.Res != nil && o.Res.Points() > 0))
			if o.ClientPanic != "" {
				return
			}
			continue
		}
		if o.ClientPanic != "" {
			continue
		}
		tag := op.Tag
		if tag == "" {
			tag = "variant"
		}
		desc := fmt.Sprintf("%s [%d..%d step %d] base(%s) vs %s(shards=%d optim=%s)", base.Q, base.Start, base.End, base.Step, base.Eng.Optim, tag, op.Shards, op.Eng.Optim)
		if o.Created != bo.Created {
			x.Viol(prop, "variant-differs", "creation|"+tag+"|"+shape, fmt.Sprintf("%s: creation %q vs %q", desc, bo.CreateErr, o.CreateErr))
			continue
		}
		if !o.Created {
			continue
		}
		if (o.Err != "") != (bo.Err != "") {
			if base.hasTopK() && tieAmbiguous(base, c.Data, base.Eng.LookbackMs) {
				x.R.Skipped = "tie"
				continue
			}
			x.Viol(prop, "variant-differs", "error-mismatch|"+errClass(bo.Err+o.Err)+"|"+tag+"|"+shape, fmt.Sprintf("%s: error %q vs %q", desc, bo.Err, o.Err))
			continue
		}
		if o.Err != "" {
			continue
		}
		if d := Compare(o.Res, bo.Res, Tol); d.Kind != "" {
			if base.hasTopK() && tieAmbiguous(base, c.Data, base.Eng.LookbackMs) {
				x.R.Skipped = "tie"
				continue
			}
			if x.undecidable(base, c.Data) {
				continue
			}
			x.Viol(prop, "variant-differs", d.Kind+"|"+tag+"|"+shape, fmt.Sprintf("%s: %s", desc, d.Detail))
		}
	}
}

// ---- C09 generator ---------------------------------------------------------------------------

var c09Keys = []string{"a", "b"}
var c09Types = []string{"=", "!=", "=~", "!~"}
var c09Vals = []string{"x", "", "x|y"}

func c09Matcher(i int) string {
	k := c09Keys[i%2]
	ty := c09Types[(i/2)%4]
	v := c09Vals[(i/8)%3]
	return fmt.Sprintf(`%s%s"%s"`, k, ty, v)
}

const c09NumMatchers = 24

// c09Selector: selector number i over metric m: 0 matchers, 1 matcher (24) or 2 matchers (24*24).
func c09Selector(m string, i int) string {
	i %= 1 + c09NumMatchers + c09NumMatchers*c09NumMatchers
	switch {
	case i == 0:
		return m
	case i <= c09NumMatchers:
		return m + "{" + c09Matcher(i-1) + "}"
	}
	i -= 1 + c09NumMatchers
	return m + "{" + c09Matcher(i/c09NumMatchers) + "," + c09Matcher(i%c09NumMatchers) + "}"
}

// c09Related derives a selector from sel (name{m1,m2}) by dropping or adding matchers.
func c09Related(r *rand.Rand, sel, metric string) string {
	var ms []string
	if i := strings.Index(sel, "{"); i >= 0 {
		ms = strings.Split(strings.TrimSuffix(sel[i+1:], "}"), ",")
	}
	switch r.Intn(4) {
	case 0: // subset
		if len(ms) > 0 {
			k := r.Intn(len(ms))
			ms = append(append([]string{}, ms[:k]...), ms[k+1:]...)
		}
	case 1: // bare metric
		ms = nil
	case 2: // superset, appended
		ms = append(ms, c09Matcher(r.Intn(c09NumMatchers)))
	case 3: // superset, prepended (descending label names occur)
		ms = append([]string{c09Matcher(r.Intn(c09NumMatchers))}, ms...)
		if r.Intn(2) == 0 {
			ms = append([]string{c09Matcher(r.Intn(c09NumMatchers))}, ms...)
		}
	}
	if r.Intn(8) == 0 {
		// the metric given by a matcher on __name__ of any type (equal, regex, and the negative
		// ones, which select every OTHER metric): optimizers that key on the name must tell them apart
		nm := []string{`__name__="%s"`, `__name__=~"%s"`, `__name__!="%s"`, `__name__!~"%s"`, `__name__=~"%s|zz"`}[r.Intn(5)]
		return "{" + strings.Join(append([]string{fmt.Sprintf(nm, metric)}, ms...), ",") + "}"
	}
	if len(ms) == 0 {
		return metric
	}
	return metric + "{" + strings.Join(ms, ",") + "}"
}

var c09Positions = []string{
	"%s + %s", "%s - on (a) %s", "%s * ignoring (b) %s", "%s / on (a) group_left %s", "%s + on (b) group_right %s",
	"%s == %s", "%s > bool %s", "sum(%s) + sum(%s)", "sum by (a) (%s) / sum by (a) (%s)", "abs(%s) + %s",
	"rate(%s[1m]) + rate(%s[1m])", "rate(%s[1m]) + %s", "%s + count_over_time(%s[2m])", "max by (b) (%s) - on (b) min by (b) (%s)",
	"scalar(%s) + %s", "%s + scalar(%s)", "clamp_min(%s, scalar(%s))", "(%s) + -%s", "topk(1, %s) + %s", "%s unless %s",
	"%s - %s - %s", "sum(%s) + sum(%s) + sum(%s)", "%s + on (a) %s * on (a) %s",
}

func c09Data(r *rand.Rand, w gen.Window) []store.Series {
	var out []store.Series
	for mi, m := range []string{"m1", "m2"} {
		for ai, a := range []string{"", "x", "y"} {
			for bi, b := range []string{"", "x", "y"} {
				l := []string{"__name__", m}
				if a != "" {
					l = append(l, "a", a)
				}
				if b != "" {
					l = append(l, "b", b)
				}
				s := store.Series{L: l}
				v := float64(1 + mi*9 + ai*3 + bi)
				for t := w.Start - 240000; t <= w.End+30000; t += 30000 {
					s.T = append(s.T, t)
					v += float64(1 + (ai+bi+mi)%3)
					s.V = append(s.V, store.F(v))
				}
				out = append(out, s)
			}
		}
	}
	return out
}

var optimSets = []string{"sort", "merge", "prop", "default", "all", "merge,prop", "prop,merge", "sort,prop"}

func GenOptim(t *testing.T, r *rand.Rand, prop, tier string, _ *atomic.Int64) *Case {
	var w gen.Window
	var q string
	var data []store.Series
	var el, ql int64
	if r.Intn(4) == 0 {
		// random larger expressions with offsets/@ on the selectors
		w, q, data, el, ql, _ = GenQuery(r, []string{"compose", "binary"}[r.Intn(2)], 0, 0.3)
	} else {
		w = gen.Window{Start: 1000000, End: 1000000 + int64(r.Intn(3))*60000*int64(r.Intn(6)), Step: 60000}
		if w.End == w.Start {
			w.Step = 0
		}
		idx := CaseIndex
		if tier != "thorough" {
			idx = r.Intn(1 << 30)
		}
		pos := c09Positions[idx%len(c09Positions)]
		idx /= len(c09Positions)
		nsel := strings.Count(pos, "%s")
		space := 1 + c09NumMatchers + c09NumMatchers*c09NumMatchers
		args := make([]any, nsel)
		for i := 0; i < nsel; i++ {
			m := "m1"
			if (idx>>uint(i))&1 == 1 && i > 0 && r.Intn(3) == 0 {
				m = "m2"
			}
			si := idx % space
			idx /= space
			if i > 0 && r.Intn(2) == 0 {
				si = r.Intn(space)
			}
			args[i] = c09Selector(m, si)
			if i > 0 && tier != "thorough" && r.Intn(5) < 3 {
				// related to the first selector, so that selects actually merge: the same
				// matchers plus/minus one, in either order
				args[i] = c09Related(r, args[0].(string), m)
			}
		}
		q = fmt.Sprintf(pos, args...)
		data = c09Data(r, w)
	}
	base := Op{Q: q, Start: w.Start, End: w.End, Step: w.Step, QLookbackMs: ql, Shards: 1 + r.Intn(4), Eng: Eng{LookbackMs: el, Optim: "none"}, Tag: "none"}
	c := &Case{Prop: prop, Scen: "multi", Data: data, Ops: []Op{base}, Sched: Sched{Strategy: pickStrategy(r), Seed: r.Int63()}, Store: drawStore(r)}
	for _, os := range optimSets {
		op := base
		op.Eng.Optim = os
		op.Tag = os
		c.Ops = append(c.Ops, op)
	}
	c.Var = map[string]any{"prop": "C09"}
	return c
}

// ---- C11 generator ---------------------------------------------------------------------------

func GenConfig(t *testing.T, r *rand.Rand, prop, tier string, _ *atomic.Int64) *Case {
	w, q, data, el, ql, _ := GenQuery(r, []string{"compose", "selector", "aggr", "binary", "rangefn", "func"}[r.Intn(6)], 0, 0.25)
	if r.Intn(2) == 0 {
		// series counts 0..40 against shard counts 1..8
		data = gen.GenData(r, w, gen.DataOpt{MaxSeries: 40, Lookback: effLookback(el, ql), PStale: 0.03, PSpecial: 0.02, NoTies: strings.Contains(q, "topk") || strings.Contains(q, "bottomk"), Hist: strings.Contains(q, "h_bucket")})
	}
	plain := store.Cfg{SharedLabels: r.Intn(2) == 0} // sorted, untrimmed, no latency; may hand out the same label slices every time
	base := Op{Q: q, Start: w.Start, End: w.End, Step: w.Step, QLookbackMs: ql, Shards: 1, Eng: Eng{LookbackMs: el, Optim: "default"}, Store: &plain, Tag: "base"}
	c := &Case{Prop: prop, Scen: "multi", Data: data, Ops: []Op{base}, Sched: Sched{Strategy: pickStrategy(r), Seed: r.Int63()}}
	nv := 3 + r.Intn(4)
	for i := 0; i < nv; i++ {
		op := base
		cfg := drawStore(r)
		if r.Intn(3) == 0 {
			cfg.LatencyUs = int64(1 + r.Intn(2000))
		}
		op.Store = &cfg
		op.Shards = 1 + r.Intn(8)
		if r.Intn(2) == 0 {
			op.ExtraSeed = r.Int63n(1<<30) + 1
		}
		op.WrapMode = r.Intn(4)
		op.Tag = fmt.Sprintf("shards%d", op.Shards)
		if i == 0 {
			// plain repetition
			op = base
			op.Tag = "repeat"
		}
		c.Ops = append(c.Ops, op)
	}
	c.Var = map[string]any{"prop": "C11"}
	return c
}
