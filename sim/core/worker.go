package core

import (
	"encoding/json"
	"fmt"
	"math/rand"
	"os"
	"sync/atomic"
	"testing"
	"time"

	"verifsim/sched"
)

// Config of one worker process (JSON file named by VSIM_CONFIG).
type Config struct {
	Mode           string  `json:"mode"` // gen | replay
	Prop           string  `json:"prop"`
	Tier           string  `json:"tier"`
	Seed           int64   `json:"seed"`
	Worker         int     `json:"worker"`
	NWorkers       int     `json:"nworkers"`
	BudgetS        float64 `json:"budget_s"`
	MaxCases       int     `json:"max_cases"`
	Out            string  `json:"out"`
	Replay         string  `json:"replay"`
	Verbose        bool    `json:"verbose"`
	MinimizeBudget int     `json:"minimize_budget"`
	Race           bool    `json:"race"`
}

type record struct {
	Type      string     `json:"type"`
	Case      *Case      `json:"case,omitempty"`
	Orig      *Case      `json:"orig,omitempty"`
	Violation *Violation `json:"violation,omitempty"`
	Result    *RunResult `json:"result,omitempty"`
	Stats     *Stats     `json:"stats,omitempty"`
	Msg       string     `json:"msg,omitempty"`
	Hash      string     `json:"hash,omitempty"`
	Log       []string   `json:"log,omitempty"`
}

// Stats are merged by the driver into the evidence file.
type Stats struct {
	Cases      int            `json:"cases"`
	Evals      int            `json:"evals"`
	Nontrivial int            `json:"nontrivial"`
	Distinct   []string       `json:"distinct_nontrivial_hashes"`
	Skipped    map[string]int `json:"skipped"`
	Steps      int64          `json:"steps"`
	FakeNanos  int64          `json:"fake_nanos"`
	Fired      map[string]int `json:"fired"`
	Probes     map[string]int `json:"probes"`
	Pairs      map[string]int `json:"pairs"`
	Hashes     int            `json:"distinct_event_hashes"`
	OtherProps map[string]int `json:"other_property_violations"`
	Strategies map[string]int `json:"strategies"`
	WallS      float64        `json:"wall_s"`
	Samples    []*Case        `json:"samples"`
}

// Generator for a property: returns the i-th case of a worker's stream.
type Generator func(t *testing.T, r *rand.Rand, prop, tier string, progress *atomic.Int64) *Case

var generators = map[string]Generator{}

// CaseIndex is the index of the case being generated in this worker's stream (for generators
// that walk a space systematically).
var CaseIndex int

func mix(a, b int64) int64 {
	x := uint64(a)*0x9E3779B97F4A7C15 + uint64(b)
	x ^= x >> 30
	x *= 0xBF58476D1CE4E5B9
	x ^= x >> 27
	x *= 0x94D049BB133111EB
	x ^= x >> 31
	return int64(x >> 1)
}

func propNum(p string) int64 {
	var n int64
	fmt.Sscanf(p, "C%d", &n)
	return n
}

// Main is the entry point of a worker process.
func Main(t *testing.T) {
	path := os.Getenv("VSIM_CONFIG")
	if path == "" {
		t.Skip("VSIM_CONFIG not set")
	}
	b, err := os.ReadFile(path)
	if err != nil {
		t.Fatal(err)
	}
	var cfg Config
	if err := json.Unmarshal(b, &cfg); err != nil {
		t.Fatal(err)
	}
	out, err := os.OpenFile(cfg.Out, os.O_CREATE|os.O_WRONLY|os.O_TRUNC, 0o644)
	if err != nil {
		t.Fatal(err)
	}
	defer out.Close()
	emit := func(r record) {
		b, err := json.Marshal(r)
		if err != nil {
			b, _ = json.Marshal(record{Type: "infra", Msg: "marshal: " + err.Error()})
		}
		out.Write(append(b, '\n'))
	}
	sched.SetAutoSites(os.Getenv("VSIM_AUTO") == "1")
	var progress atomic.Int64
	RaceMode = cfg.Race
	if !cfg.Race {
		startWatchdog(&progress, emit)
	}

	switch cfg.Mode {
	case "replay":
		b, err := os.ReadFile(cfg.Replay)
		if err != nil {
			t.Fatal(err)
		}
		var rf struct {
			Case      *Case      `json:"case"`
			Violation *Violation `json:"violation"`
		}
		if err := json.Unmarshal(b, &rf); err != nil || rf.Case == nil {
			t.Fatalf("bad replay file: %v", err)
		}
		emit(record{Type: "start", Case: rf.Case})
		rr := RunCase(t, rf.Case, &progress, cfg.Verbose)
		emit(record{Type: "replayed", Case: rf.Case, Result: rr, Hash: rr.Hash, Log: rr.Log})
		emit(record{Type: "done"})
	case "gen":
		workerLoop(t, cfg, &progress, emit)
	default:
		t.Fatalf("unknown mode %q", cfg.Mode)
	}
}

func workerLoop(t *testing.T, cfg Config, progress *atomic.Int64, emit func(record)) {
	g, ok := generators[cfg.Prop]
	if !ok {
		emit(record{Type: "infra", Msg: "no generator for " + cfg.Prop})
		return
	}
	st := &Stats{Skipped: map[string]int{}, Fired: map[string]int{}, Probes: map[string]int{}, Pairs: map[string]int{}, OtherProps: map[string]int{}, Strategies: map[string]int{}}
	distinct := map[string]bool{}
	hashes := map[string]bool{}
	seenKeys := map[string]bool{}
	start := time.Now()
	deadline := start.Add(time.Duration(cfg.BudgetS * float64(time.Second)))
	for i := cfg.Worker; ; i += cfg.NWorkers {
		if cfg.MaxCases > 0 && i >= cfg.MaxCases {
			break
		}
		if time.Now().After(deadline) {
			break
		}
		seed := mix(mix(cfg.Seed, propNum(cfg.Prop)), int64(i))
		r := rand.New(rand.NewSource(seed))
		CaseIndex = i
		c := g(t, r, cfg.Prop, cfg.Tier, progress)
		if c == nil {
			continue
		}
		if cfg.Race && c.Scen != "race" {
			// race-directed phase of another property's check: this property's workload,
			// free-running under the race detector; only the statements it names are kept
			if c = ToRace(c); c == nil {
				continue
			}
		}
		c.Seed = seed
		// one case in three also explores the automatically inserted yields (every channel,
		// WaitGroup, mutex and select operation of the engine), if the build is instrumented
		c.Sched.Auto = sched.AutoSites() && uint64(seed)%3 == 0
		if (uint64(seed)>>8)%6 == 0 {
			// engine option DebugWriter: every plan is explained to it at creation; nothing else
			// may change (same flag for every op of the case, so comparisons stay like for like)
			for i := range c.Ops {
				c.Ops[i].Eng.Debug = true
			}
		}
		c.ID = fmt.Sprintf("%s-%s-s%d-i%d", cfg.Prop, cfg.Tier, cfg.Seed, i)
		if c.Prop == "" {
			c.Prop = cfg.Prop
		}
		emit(record{Type: "start", Case: c})
		rr := RunCase(t, c, progress, false)
		st.Cases++
		st.Evals += rr.Evals
		st.Steps += int64(rr.Steps)
		st.FakeNanos += rr.FakeNanos
		st.Strategies[c.Sched.Strategy]++
		if c.Sched.Auto {
			st.Strategies["(of these, with automatic yield points)"]++
		}
		for k, v := range rr.Fired {
			st.Fired[k] += v
		}
		for k, v := range rr.Probes {
			st.Probes[k] += v
		}
		for k, v := range rr.Pairs {
			st.Pairs[k] += v
		}
		if rr.Skipped != "" {
			st.Skipped[rr.Skipped]++
		}
		for _, site := range rr.RaceSites {
			if !seenKeys["site|"+site] {
				seenKeys["site|"+site] = true
				emit(record{Type: "race-site", Msg: site})
			}
		}
		hashes[rr.Hash] = true
		if rr.Nontrivial {
			st.Nontrivial++
			distinct[c.Hash()] = true
		}
		if len(st.Samples) < 3 && rr.Nontrivial {
			st.Samples = append(st.Samples, c)
		}
		if rr.Infra != "" {
			emit(record{Type: "infra", Case: c, Msg: rr.Infra})
			continue
		}
		for _, v := range rr.Violations {
			if v.Prop != cfg.Prop {
				st.OtherProps[v.Prop]++
				continue
			}
			if seenKeys[v.Key] {
				continue
			}
			seenKeys[v.Key] = true
			v := v
			c2 := c.Clone()
			c2.Sched.Tape = append([]uint16{}, rr.Tape...)
			mc, mv := Minimize(t, c2, v, progress, cfg.MinimizeBudget)
			seenKeys[mv.Key] = true
			emit(record{Type: "violation", Case: mc, Orig: c, Violation: &mv})
		}
	}
	for h := range distinct {
		st.Distinct = append(st.Distinct, h)
	}
	st.Hashes = len(hashes)
	st.WallS = time.Since(start).Seconds()
	emit(record{Type: "stats", Stats: st})
	emit(record{Type: "done"})
}

// startWatchdog: a real-time watchdog outside any bubble. One scheduling step taking longer than
// 30s of real time means the simulator is wedged (e.g. a goroutine parked inside a contended
// sync.Once); that is infrastructure trouble, never a violation.
func startWatchdog(progress *atomic.Int64, emit func(record)) {
	go func() {
		last := progress.Load()
		stuck := 0
		for {
			time.Sleep(5 * time.Second)
			cur := progress.Load()
			if cur == last {
				stuck++
			} else {
				stuck = 0
			}
			last = cur
			if stuck >= 8 {
				emit(record{Type: "watchdog", Msg: "no scheduling progress for 40s"})
				os.Exit(97)
			}
		}
	}()
}
