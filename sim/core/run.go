package core

import (
	"context"
	"errors"
	"fmt"
	"io"
	"os"
	"runtime"
	"runtime/debug"
	"strings"
	"sync"
	"time"

	"github.com/prometheus/client_golang/prometheus"
	"github.com/prometheus/prometheus/promql"
	"github.com/prometheus/prometheus/promql/parser"
	"github.com/prometheus/prometheus/storage"
	v1 "github.com/prometheus/prometheus/web/api/v1"

	"github.com/thanos-community/promql-engine/api"
	"github.com/thanos-community/promql-engine/engine"
	"github.com/thanos-community/promql-engine/execution/parse"
	"github.com/thanos-community/promql-engine/logicalplan"

	"verifsim/sched"
	"verifsim/store"
)

func ms(t int64) time.Time { return time.UnixMilli(t) }

func promOpts(lookbackMs int64, reg prometheus.Registerer) promql.EngineOpts {
	return promql.EngineOpts{
		Reg:                      reg,
		MaxSamples:               50000000,
		Timeout:                  2 * time.Hour,
		LookbackDelta:            time.Duration(lookbackMs) * time.Millisecond,
		EnableAtModifier:         true,
		EnableNegativeOffset:     true,
		NoStepSubqueryIntervalFn: func(int64) int64 { return 60000 },
	}
}

func optimizers(s string) []logicalplan.Optimizer {
	switch s {
	case "", "default":
		return nil
	case "none":
		return logicalplan.NoOptimizers
	case "all":
		return logicalplan.AllOptimizers
	}
	out := []logicalplan.Optimizer{}
	for _, p := range strings.Split(s, ",") {
		switch p {
		case "sort":
			out = append(out, logicalplan.SortMatchers{})
		case "merge":
			out = append(out, logicalplan.MergeSelectsOptimizer{})
		case "prop":
			out = append(out, logicalplan.PropagateMatchersOptimizer{})
		}
	}
	return out
}

// Engine is an engine under test plus the registry its per-path counter lives in.
type Engine struct {
	E       v1.QueryEngine
	Reg     *prometheus.Registry
	Remotes []*Remote
}

func NewEngine(e Eng, remotes []*Remote) *Engine {
	reg := prometheus.NewRegistry()
	opts := engine.Opts{EngineOpts: promOpts(e.LookbackMs, reg), LogicalOptimizers: optimizers(e.Optim), DisableFallback: e.NoFallback}
	if e.Debug {
		opts.DebugWriter = io.Discard
	}
	if e.Distributed {
		engs := make([]api.RemoteEngine, len(remotes))
		for i, r := range remotes {
			engs[i] = r
		}
		// the set of remote engines is asked for at every query (service discovery): one that
		// joins after the engine was constructed takes part in the next query
		ep := &dynEndpoints{engs: engs}
		if e.Grow && len(engs) > 1 {
			ep.engs = engs[:len(engs)-1]
		}
		de := engine.NewDistributedEngine(opts, ep)
		ep.set(engs)
		return &Engine{E: de, Reg: reg, Remotes: remotes}
	}
	return &Engine{E: engine.New(opts), Reg: reg}
}

type dynEndpoints struct {
	mu   sync.Mutex
	engs []api.RemoteEngine
}

func (d *dynEndpoints) Engines() []api.RemoteEngine {
	d.mu.Lock()
	defer d.mu.Unlock()
	return append([]api.RemoteEngine(nil), d.engs...)
}

func (d *dynEndpoints) set(engs []api.RemoteEngine) {
	d.mu.Lock()
	d.engs = engs
	d.mu.Unlock()
}

func (e *Engine) counters() (native, fallback float64) {
	mfs, err := e.Reg.Gather()
	if err != nil {
		return -1, -1
	}
	for _, mf := range mfs {
		if mf.GetName() != "promql_engine_queries_total" {
			continue
		}
		for _, m := range mf.GetMetric() {
			for _, l := range m.GetLabel() {
				if l.GetName() == "fallback" {
					if l.GetValue() == "true" {
						fallback = m.GetCounter().GetValue()
					} else {
						native = m.GetCounter().GetValue()
					}
				}
			}
		}
	}
	return
}

// Remote is a simulated remote engine: a local engine over one partition behind a transport that
// can delay and fail.
type Remote struct {
	inner     api.RemoteEngine
	Store     *store.Store
	CreateErr error
	ExecErr   error
	DelayMs   int64
	Delivered []string
	Queries   int
	qmu       sync.Mutex
}

func NewRemote(e Eng, st *store.Store) *Remote {
	e.Distributed = false
	opts := engine.Opts{EngineOpts: promOpts(e.LookbackMs, nil), LogicalOptimizers: optimizers(e.Optim), DisableFallback: e.NoFallback}
	if e.Debug {
		opts.DebugWriter = io.Discard
	}
	return &Remote{inner: engine.NewLocalEngine(opts, st), Store: st}
}

func (r *Remote) NewInstantQuery(opts *promql.QueryOpts, qs string, ts time.Time) (promql.Query, error) {
	sched.Yield("remote.new")
	r.qmu.Lock()
	r.Queries++
	r.qmu.Unlock()
	if r.CreateErr != nil {
		r.deliver(r.CreateErr)
		return nil, r.CreateErr
	}
	sched.Note("remote instant %q at %d", qs, ts.UnixMilli())
	q, err := r.inner.NewInstantQuery(opts, qs, ts)
	if err != nil {
		return nil, err
	}
	return &remoteQuery{Query: q, r: r}, nil
}

func (r *Remote) NewRangeQuery(opts *promql.QueryOpts, qs string, start, end time.Time, step time.Duration) (promql.Query, error) {
	sched.Yield("remote.new")
	r.qmu.Lock()
	r.Queries++
	r.qmu.Unlock()
	if r.CreateErr != nil {
		r.deliver(r.CreateErr)
		return nil, r.CreateErr
	}
	sched.Note("remote range %q %d..%d/%d", qs, start.UnixMilli(), end.UnixMilli(), step.Milliseconds())
	q, err := r.inner.NewRangeQuery(opts, qs, start, end, step)
	if err != nil {
		return nil, err
	}
	return &remoteQuery{Query: q, r: r}, nil
}

func (r *Remote) deliver(err error) {
	var ie *store.InjectedError
	if errors.As(err, &ie) {
		r.qmu.Lock()
		r.Delivered = append(r.Delivered, ie.ID)
		r.qmu.Unlock()
	}
}

type remoteQuery struct {
	promql.Query
	r *Remote
}

func (q *remoteQuery) Exec(ctx context.Context) *promql.Result {
	sched.Yield("remote.exec")
	if q.r.DelayMs > 0 {
		t := time.NewTimer(time.Duration(q.r.DelayMs) * time.Millisecond)
		select {
		case <-ctx.Done():
			t.Stop()
			sched.Yield("remote.cancelled")
			return &promql.Result{Err: ctx.Err()}
		case <-t.C:
		}
		sched.Yield("remote.delayed")
	}
	if q.r.ExecErr != nil {
		q.r.deliver(q.r.ExecErr)
		return &promql.Result{Err: q.r.ExecErr}
	}
	res := q.Query.Exec(ctx)
	if os.Getenv("VSIM_DEBUG_REMOTE") != "" {
		sched.Note("REMOTE -> %v %v", res.Value, res.Err)
	}
	return res
}

// Outcome is everything observed about one query.
type Outcome struct {
	Created        bool              `json:"created"`
	CreateErr      string            `json:"create_err,omitempty"`
	CreateErrVal   error             `json:"-"`
	Unsupported    bool              `json:"unsupported,omitempty"`
	ClientPanic    string            `json:"client_panic,omitempty"`
	CancelPanic    string            `json:"cancel_panic,omitempty"` // panic inside Cancel()/Close() called by the second client
	LoopAtCancel   int               `json:"-"`                      // passes of Exec's loop when the client's Cancel()/Close() had returned (-1: not applicable)
	LoopAtEnd      int               `json:"-"`
	Fallback       bool              `json:"fallback,omitempty"`
	QueryType      string            `json:"query_type,omitempty"` // concrete type of the promql.Query the engine returned
	DNative        float64           `json:"d_native"`
	DFallback      float64           `json:"d_fallback"`
	Res            *Result           `json:"res,omitempty"`
	Err            string            `json:"err,omitempty"`
	Canceled       bool              `json:"canceled,omitempty"`
	Deadline       bool              `json:"deadline,omitempty"`
	Injected       []string          `json:"injected,omitempty"`
	WF             []string          `json:"wf,omitempty"`
	Contract       map[string]string `json:"contract,omitempty"`
	ExecStart      int               `json:"exec_start"`
	ExecEnd        int               `json:"exec_end"`
	CancelStep     int               `json:"cancel_step,omitempty"`
	FirstCBStep    int               `json:"first_cb_step,omitempty"`
	Acct           *store.Acct       `json:"-"`
	PartAccts      []*store.Acct     `json:"-"`
	Raw            parser.Value      `json:"-"`
	ErrVal         error             `json:"-"`
	ExprType       parser.ValueType  `json:"-"`
	Q              promql.Query      `json:"-"`
	AliveAtClose   []string          `json:"alive_at_close,omitempty"`
	CtxDoneAtEnd   bool              `json:"ctx_done_at_end,omitempty"`
	ParkedAtCancel map[string]int    `json:"-"`
	ContractStats  [4]int            `json:"-"`
}

func (o *Outcome) Failed() bool { return !o.Created || o.Err != "" || o.ClientPanic != "" }

func (o *Outcome) Brief() string {
	switch {
	case o.ClientPanic != "":
		return "panic: " + o.ClientPanic
	case !o.Created:
		return "create error: " + o.CreateErr
	case o.Err != "":
		return "error: " + o.Err
	}
	if o.Fallback {
		return "(fallback) " + o.Res.Brief()
	}
	return o.Res.Brief()
}

func classifyErr(o *Outcome, err error, delivered []string) {
	o.Err = err.Error()
	o.ErrVal = err
	if errors.Is(err, context.Canceled) {
		o.Canceled = true
	}
	if errors.Is(err, context.DeadlineExceeded) {
		o.Deadline = true
	}
	var ec promql.ErrQueryCanceled
	if errors.As(err, &ec) {
		o.Canceled = true
	}
	var et promql.ErrQueryTimeout
	if errors.As(err, &et) {
		o.Deadline = true
	}
	inner := err
	var es promql.ErrStorage
	if errors.As(err, &es) {
		inner = es.Err
	}
	var ie *store.InjectedError
	if errors.As(inner, &ie) {
		o.Injected = append(o.Injected, ie.ID)
	} else if errors.As(err, &ie) {
		o.Injected = append(o.Injected, ie.ID)
	}
}

// QueryRun describes how one query is driven.
type QueryRun struct {
	Op       Op
	Eng      *Engine
	Store    storage.Queryable
	Sim      *sched.Sim     // may be nil (free-running)
	Acct     *store.Store   // instrumented store to account on (nil for distributed-only)
	Parts    []*store.Store // distributed: the partition storages behind the remote engines
	NoClose  bool
	Contract bool
	Client   int // index of the client task (names its canceller)
}

func sched_yield() { sched.Yield("client.step") }

// newQuery only creates the query.
func newQuery(e *Engine, st storage.Queryable, op Op) (promql.Query, error) {
	if op.Step == 0 {
		return e.E.NewInstantQuery(st, nil, op.Q, ms(op.Start))
	}
	return e.E.NewRangeQuery(st, nil, op.Q, ms(op.Start), ms(op.End), time.Duration(op.Step)*time.Millisecond)
}

// RunQuery creates, executes and closes one query as the calling task.
func RunQuery(r QueryRun) (o *Outcome) {
	o = &Outcome{LoopAtCancel: -1}
	op := r.Op
	defer func() {
		if p := recover(); p != nil {
			o.ClientPanic = fmt.Sprintf("%v | %s", p, trimStack(debug.Stack()))
		}
	}()
	if expr, err := parser.ParseExpr(op.Q); err == nil {
		o.ExprType = expr.Type()
	}
	var ct *Contract
	if r.Contract {
		ct = &Contract{Mode: op.WrapMode, Findings: map[string]string{}}
		activeContract.Store(ct)
		defer activeContract.Store(nil)
	}
	if op.Shards > 0 {
		runtime.GOMAXPROCS(2 * op.Shards)
	}
	var qopts *promql.QueryOpts
	if op.QLookbackMs > 0 {
		qopts = &promql.QueryOpts{LookbackDelta: time.Duration(op.QLookbackMs) * time.Millisecond}
	}
	n0, f0 := r.Eng.counters()
	var q promql.Query
	var err error
	if op.Step == 0 {
		q, err = r.Eng.E.NewInstantQuery(r.Store, qopts, op.Q, ms(op.Start))
	} else {
		q, err = r.Eng.E.NewRangeQuery(r.Store, qopts, op.Q, ms(op.Start), ms(op.End), time.Duration(op.Step)*time.Millisecond)
	}
	if r.Sim != nil && op.Shards > 0 {
		// The shard count is read when the plan is built. Execution under the scheduler runs one
		// goroutine at a time anyway; a single P makes sync.Pool reuse (the engine's vector pools,
		// anything a change adds) a function of the schedule instead of the thread a goroutine
		// happens to land on.
		runtime.GOMAXPROCS(1)
	}
	n1, f1 := r.Eng.counters()
	o.DNative, o.DFallback = n1-n0, f1-f0
	o.Fallback = o.DFallback > 0
	if q != nil {
		// what the engine handed out, independently of what it counted
		o.QueryType = fmt.Sprintf("%T", q)
	}
	if ct != nil {
		activeContract.Store(nil)
	}
	if err != nil {
		o.CreateErr = err.Error()
		o.CreateErrVal = err
		o.Unsupported = errors.Is(err, parse.ErrNotSupportedExpr) || errors.Is(err, parse.ErrNotImplemented)
		return o
	}
	o.Created = true
	o.Q = q

	ctx, cancel := context.WithCancel(context.Background())
	defer cancel()
	if op.DeadlineMs > 0 {
		var c2 context.CancelFunc
		ctx, c2 = context.WithTimeout(ctx, time.Duration(op.DeadlineMs)*time.Millisecond)
		defer c2()
	}
	step := func() int {
		if r.Sim != nil {
			return r.Sim.Step()
		}
		return 0
	}
	cancelFn := func() {
		if o.CancelStep == 0 {
			o.CancelStep = step()
			if r.Sim != nil {
				o.ParkedAtCancel = r.Sim.ParkedSites()
			}
		}
		cancel()
	}
	if r.Acct != nil {
		f := op.Faults
		if op.FaultPart > 0 && len(r.Parts) > 0 {
			f = nil
		}
		r.Acct.BeginOp(f, cancelFn)
	}
	for i, ps := range r.Parts {
		var f []store.Fault
		if op.FaultPart == i+1 {
			f = op.Faults
		}
		ps.BeginOp(f, cancelFn)
	}
	clientDone := make(chan struct{})
	var omu sync.Mutex // the canceller and the AfterFunc callback touch o next to this goroutine
	if op.ClientCancelStep > 0 && r.Sim != nil {
		r.Sim.Go("canceller", r.Client, func() {
			defer close(clientDone)
			r.Sim.HoldUntil(op.ClientCancelStep)
			omu.Lock()
			if o.ExecEnd != 0 {
				omu.Unlock()
				return
			}
			if o.CancelStep == 0 {
				o.CancelStep = step()
				o.ParkedAtCancel = r.Sim.ParkedSites()
			}
			omu.Unlock()
			sched.Note("client-cancel")
			func() {
				// Cancel and Close are engine API calls made on the client's goroutine: a panic
				// in them would take the embedding process down (C13)
				defer func() {
					if p := recover(); p != nil {
						omu.Lock()
						o.CancelPanic = fmt.Sprintf("%v | %s", p, trimStack(debug.Stack()))
						omu.Unlock()
					}
				}()
				if op.ClientClose {
					q.Close()
				} else {
					q.Cancel()
				}
			}()
			omu.Lock()
			running := o.ExecStart != 0 && o.ExecEnd == 0
			if running {
				o.LoopAtCancel = r.Sim.SiteCount("exec.loop")
			}
			omu.Unlock()
			if running {
				if r.Acct != nil {
					r.Acct.NoteClientCancel()
				}
				for _, ps := range r.Parts {
					ps.NoteClientCancel()
				}
			}
		})
	} else if op.ClientCancelStep > 0 && r.Sim == nil {
		// free-running (race detector): a second goroutine cancels after a few reschedules
		go func() {
			defer close(clientDone)
			for i := 0; i < op.ClientCancelStep; i++ {
				runtime.Gosched()
			}
			defer func() {
				if p := recover(); p != nil {
					omu.Lock()
					o.CancelPanic = fmt.Sprintf("%v | %s", p, trimStack(debug.Stack()))
					omu.Unlock()
				}
			}()
			if op.ClientClose {
				q.Close()
			} else {
				q.Cancel()
			}
		}()
	} else {
		close(clientDone)
	}
	afDone := make(chan struct{})
	stopAF := context.AfterFunc(ctx, func() {
		defer close(afDone)
		omu.Lock()
		defer omu.Unlock()
		if o.CancelStep == 0 && o.ExecEnd == 0 {
			o.CancelStep = step()
			if o.CancelStep == 0 {
				o.CancelStep = -1
			}
		}
	})
	omu.Lock()
	o.ExecStart = step()
	omu.Unlock()
	res := q.Exec(ctx)
	omu.Lock()
	o.ExecEnd = step()
	if o.ExecEnd == 0 {
		o.ExecEnd = -1
	}
	if r.Sim != nil {
		o.LoopAtEnd = r.Sim.SiteCount("exec.loop")
	}
	omu.Unlock()
	o.CtxDoneAtEnd = ctx.Err() != nil
	if !stopAF() {
		<-afDone // the callback has started: let it finish before anybody reads o
	}
	if r.Acct != nil {
		o.Acct = r.Acct.Acct()
	}
	for _, ps := range r.Parts {
		o.PartAccts = append(o.PartAccts, ps.Acct())
	}
	// The result is inspected before the query is closed: on the fallback path Close hands the
	// result's point slices back to the reference engine's pool (its documented contract).
	if res.Err != nil {
		var delivered []string
		if o.Acct != nil {
			delivered = o.Acct.Delivered
		}
		classifyErr(o, res.Err, delivered)
	} else {
		o.Raw = res.Value
		o.Res = Normalize(res.Value)
		o.WF = WellFormed(res.Value, o.ExprType, op.Step != 0, op.Start, op.End, op.Step)
	}
	if !r.NoClose {
		q.Close()
	}
	if ct != nil {
		ct.Finish()
		o.Contract = ct.Findings
		o.ContractStats = [4]int{ct.Ops, ct.Nexts, ct.Serieses, ct.Probes}
	}
	if r.Sim != nil {
		// let the canceller finish so that it does not outlive the query
		<-clientDone
	}
	return o
}

func trimStack(b []byte) string {
	lines := strings.Split(string(b), "\n")
	var out []string
	for _, l := range lines {
		if strings.Contains(l, "promql-engine") || strings.Contains(l, "prometheus/") {
			out = append(out, strings.TrimSpace(l))
		}
		if len(out) > 16 {
			break
		}
	}
	return strings.Join(out, " | ")
}

// RefQuery evaluates the operation on the pinned Prometheus engine over a plain view of the data.
func RefQuery(op Op, data []store.Series, lookbackMs int64) *Outcome {
	return RefQueryPerm(op, data, lookbackMs, 0)
}

// RefQueryPerm: the reference engine over a storage that returns series in a seeded permutation
// (perm != 0); used to find out whether the reference's own answer depends on input order.
func RefQueryPerm(op Op, data []store.Series, lookbackMs int64, perm int64) *Outcome {
	return refOnLB(op, store.New(data, store.Cfg{PermSeed: perm}, true), lookbackMs)
}

// refOn evaluates op with the reference engine over the given storage.
func refOn(op Op, st *store.Store) *Outcome { return refOnLB(op, st, op.Eng.LookbackMs) }

func refOnLB(op Op, st *store.Store, lookbackMs int64) *Outcome {
	o := &Outcome{}
	defer func() {
		if p := recover(); p != nil {
			o.ClientPanic = fmt.Sprint(p)
		}
	}()
	ng := promql.NewEngine(promOpts(lookbackMs, nil))
	var qopts *promql.QueryOpts
	if op.QLookbackMs > 0 {
		qopts = &promql.QueryOpts{LookbackDelta: time.Duration(op.QLookbackMs) * time.Millisecond}
	}
	var q promql.Query
	var err error
	if op.Step == 0 {
		q, err = ng.NewInstantQuery(st, qopts, op.Q, ms(op.Start))
	} else {
		q, err = ng.NewRangeQuery(st, qopts, op.Q, ms(op.Start), ms(op.End), time.Duration(op.Step)*time.Millisecond)
	}
	if err != nil {
		o.CreateErr = err.Error()
		return o
	}
	o.Created = true
	defer q.Close()
	res := q.Exec(context.Background())
	if res.Err != nil {
		o.Err = res.Err.Error()
		o.ErrVal = res.Err
		return o
	}
	o.Raw = res.Value
	o.Res = Normalize(res.Value)
	return o
}
