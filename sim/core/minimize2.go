package core

import (
	"sort"
	"strings"
	"sync/atomic"
	"testing"

	"github.com/prometheus/prometheus/model/labels"
	"github.com/prometheus/prometheus/promql/parser"

	"verifsim/store"
)

func init() { minimizeImpl = minimize }

// kindOf: the part of a violation key that has to survive minimisation (everything before the
// normalised expression).
func kindOf(key string) string {
	if i := strings.Index(key, "|"); i >= 0 {
		return key[:i]
	}
	return key
}

type minimizer struct {
	t        *testing.T
	progress *atomic.Int64
	budget   int
	runs     int
	target   Violation
	last     Violation
}

func (m *minimizer) test(c *Case) bool {
	if m.runs >= m.budget {
		return false
	}
	m.runs++
	rr := RunCase(m.t, c, m.progress, false)
	if rr.Infra != "" {
		return false
	}
	for _, v := range rr.Violations {
		if v.Prop == m.target.Prop && v.Oracle == m.target.Oracle && kindOf(v.Key) == kindOf(m.target.Key) {
			m.last = v
			return true
		}
	}
	return false
}

func minimize(t *testing.T, c *Case, v Violation, progress *atomic.Int64, budget int) (*Case, Violation) {
	if budget == 0 {
		budget = 300
	}
	m := &minimizer{t: t, progress: progress, budget: budget, target: v, last: v}
	cur := c.Clone()
	if !m.test(cur) {
		// not reproducible with the recorded tape: report as is; the driver's fresh-process
		// replay will flag it
		return c, v
	}
	try := func(mut func(d *Case) bool) bool {
		d := cur.Clone()
		if !mut(d) {
			return false
		}
		if m.test(d) {
			cur = d
			return true
		}
		return false
	}
	// 1. schedule
	if !try(func(d *Case) bool {
		d.Sched.Tape = []uint16{}
		d.Sched.Strategy = "first"
		d.Sched.Seed = 0
		return true
	}) {
		n := len(cur.Sched.Tape)
		// shortest prefix (zeros after it)
		lo, hi := 0, n
		for lo < hi && m.runs < m.budget {
			mid := (lo + hi) / 2
			d := cur.Clone()
			d.Sched.Tape = d.Sched.Tape[:mid]
			if m.test(d) {
				hi = mid
				cur = d
			} else {
				lo = mid + 1
			}
		}
		// zero chunks
		for size := len(cur.Sched.Tape) / 2; size >= 1 && m.runs < m.budget; size /= 2 {
			for off := 0; off+size <= len(cur.Sched.Tape); off += size {
				allZero := true
				for _, x := range cur.Sched.Tape[off : off+size] {
					if x != 0 {
						allZero = false
					}
				}
				if allZero {
					continue
				}
				try(func(d *Case) bool {
					for i := off; i < off+size; i++ {
						d.Sched.Tape[i] = 0
					}
					return true
				})
			}
			if size == 1 {
				break
			}
		}
		cur.Sched.Strategy, cur.Sched.Seed = "tape", 0
	}
	for round := 0; round < 3 && m.runs < m.budget; round++ {
		changed := false
		// 2. ops
		firstDroppable := 0
		if cur.Scen == "multi" || cur.Scen == "history" || cur.Scen == "concurrent" {
			firstDroppable = 1 // Ops[0] is the base / carries the engine options
		}
		for i := len(cur.Ops) - 1; i >= firstDroppable && len(cur.Ops) > 1; i-- {
			if try(func(d *Case) bool { d.Ops = append(d.Ops[:i:i], d.Ops[i+1:]...); return true }) {
				changed = true
			}
		}
		// 3. faults and per-op knobs
		for oi := range cur.Ops {
			for fi := len(cur.Ops[oi].Faults) - 1; fi >= 0; fi-- {
				if try(func(d *Case) bool {
					f := d.Ops[oi].Faults
					d.Ops[oi].Faults = append(f[:fi:fi], f[fi+1:]...)
					return true
				}) {
					changed = true
				}
			}
			for fi := range cur.Ops[oi].Faults {
				for cur.Ops[oi].Faults[fi].At > 1 {
					if !try(func(d *Case) bool { d.Ops[oi].Faults[fi].At /= 2; return true }) {
						break
					}
					changed = true
				}
				for cur.Ops[oi].Faults[fi].At > 1 {
					if !try(func(d *Case) bool { d.Ops[oi].Faults[fi].At--; return true }) {
						break
					}
				}
			}
			knobs := []func(d *Case) bool{
				func(d *Case) bool {
					o := &d.Ops[oi]
					if o.QLookbackMs == 0 {
						return false
					}
					o.QLookbackMs = 0
					return true
				},
				func(d *Case) bool {
					o := &d.Ops[oi]
					if o.Eng.LookbackMs == 0 {
						return false
					}
					o.Eng.LookbackMs = 0
					return true
				},
				func(d *Case) bool {
					o := &d.Ops[oi]
					if o.Eng.Optim == "none" || d.Scen == "multi" {
						return false
					}
					o.Eng.Optim = "none"
					return true
				},
				func(d *Case) bool {
					o := &d.Ops[oi]
					if o.Shards <= 1 {
						return false
					}
					o.Shards = 1
					return true
				},
				func(d *Case) bool {
					o := &d.Ops[oi]
					if o.WrapMode == 0 {
						return false
					}
					o.WrapMode = 0
					return true
				},
				func(d *Case) bool {
					o := &d.Ops[oi]
					if o.DeadlineMs == 0 {
						return false
					}
					o.DeadlineMs = 0
					return true
				},
				func(d *Case) bool {
					o := &d.Ops[oi]
					if o.ClientCancelStep == 0 {
						return false
					}
					o.ClientCancelStep = 0
					return true
				},
				func(d *Case) bool {
					o := &d.Ops[oi]
					if o.Step == 0 || o.End == o.Start {
						return false
					}
					o.End = o.Start
					return true
				},
				func(d *Case) bool {
					o := &d.Ops[oi]
					if o.Step == 0 {
						return false
					}
					o.End = o.Start
					o.Step = 0
					return true
				},
				func(d *Case) bool {
					o := &d.Ops[oi]
					if o.Step == 0 || (o.End-o.Start)/o.Step < 2 {
						return false
					}
					o.End = o.Start + ((o.End-o.Start)/o.Step/2)*o.Step
					return true
				},
				func(d *Case) bool {
					o := &d.Ops[oi]
					if o.Step == 0 || (o.End-o.Start)/o.Step < 11 {
						return false
					}
					o.End = o.Start + 10*o.Step
					return true
				},
				func(d *Case) bool {
					o := &d.Ops[oi]
					if o.Step == 0 || (o.End-o.Start)%o.Step == 0 {
						return false
					}
					o.End = o.Start + ((o.End-o.Start)/o.Step)*o.Step
					return true
				},
			}
			for _, k := range knobs {
				k := k
				sk := func(d *Case) bool {
					if !k(d) {
						return false
					}
					if d.Scen == "multi" {
						// the variants of a multi case share query, window and lookbacks
						src := d.Ops[oi]
						for j := range d.Ops {
							d.Ops[j].Start, d.Ops[j].End, d.Ops[j].Step = src.Start, src.End, src.Step
							d.Ops[j].QLookbackMs, d.Ops[j].Eng.LookbackMs = src.QLookbackMs, src.Eng.LookbackMs
						}
					}
					return true
				}
				for try(sk) {
					changed = true
				}
			}
		}
		// 4. store knobs
		for _, k := range []func(d *Case) bool{
			func(d *Case) bool {
				if d.Store.PermSeed == 0 {
					return false
				}
				d.Store.PermSeed = 0
				return true
			},
			func(d *Case) bool {
				if !d.Store.SharedLabels {
					return false
				}
				d.Store.SharedLabels = false
				return true
			},
			func(d *Case) bool {
				if !d.Store.Trim {
					return false
				}
				d.Store.Trim = false
				return true
			},
			func(d *Case) bool {
				if d.Store.YieldEvery == 0 {
					return false
				}
				d.Store.YieldEvery = 0
				return true
			},
			func(d *Case) bool {
				if d.Store.LatencyUs == 0 {
					return false
				}
				d.Store.LatencyUs = 0
				return true
			},
		} {
			if try(k) {
				changed = true
			}
		}
		// 5. data: series, then samples
		for size := (len(cur.Data) + 1) / 2; size >= 1; size /= 2 {
			for off := 0; off < len(cur.Data); {
				end := off + size
				if end > len(cur.Data) {
					end = len(cur.Data)
				}
				if try(func(d *Case) bool {
					d.Data = append(d.Data[:off:off], d.Data[end:]...)
					if d.Parts != nil {
						d.Parts = append(d.Parts[:off:off], d.Parts[end:]...)
					}
					return true
				}) {
					changed = true
				} else {
					off = end
				}
			}
			if size == 1 {
				break
			}
		}
		for si := range cur.Data {
			for size := (len(cur.Data[si].T) + 1) / 2; size >= 1; size /= 2 {
				for off := 0; off < len(cur.Data[si].T); {
					end := off + size
					if end > len(cur.Data[si].T) {
						end = len(cur.Data[si].T)
					}
					if try(func(d *Case) bool {
						s := &d.Data[si]
						s.T = append(s.T[:off:off], s.T[end:]...)
						s.V = append(s.V[:off:off], s.V[end:]...)
						return true
					}) {
						changed = true
					} else {
						off = end
					}
					if m.runs >= m.budget {
						break
					}
				}
				if size == 1 {
					break
				}
			}
			// labels
			for li := len(cur.Data[si].L) - 2; li >= 0; li -= 2 {
				if cur.Data[si].L[li] == "__name__" {
					continue
				}
				if try(func(d *Case) bool {
					s := &d.Data[si]
					nl := append(append([]string{}, s.L[:li]...), s.L[li+2:]...)
					for j, o := range d.Data {
						if j != si && sameL(o.L, nl) {
							return false
						}
					}
					s.L = nl
					return true
				}) {
					changed = true
				}
			}
		}
		// 6. expression
		for oi := range cur.Ops {
			if cur.Ops[oi].Q == "" {
				continue
			}
		again:
			for _, q := range Mutations(cur.Ops[oi].Q) {
				if m.runs >= m.budget {
					break
				}
				if try(func(d *Case) bool {
					old := d.Ops[oi].Q
					d.Ops[oi].Q = q
					if d.Scen == "multi" {
						for j := range d.Ops {
							if d.Ops[j].Q == old {
								d.Ops[j].Q = q
							}
						}
					}
					return true
				}) {
					changed = true
					goto again
				}
			}
		}
		if !changed {
			break
		}
	}
	// simplify sample values last (cosmetic; cheap)
	_ = store.F(0)
	// final run to compute the key of the minimised case
	final := m.last
	if m.test(cur) {
		final = m.last
	}
	return cur, final
}

func sameL(a, b []string) bool {
	return labels.Equal(labels.FromStrings(a...), labels.FromStrings(b...))
}

// slots returns pointers to every sub-expression slot of the tree rooted at *root (root first).
func slots(root *parser.Expr) []*parser.Expr {
	out := []*parser.Expr{root}
	switch n := (*root).(type) {
	case *parser.AggregateExpr:
		out = append(out, slots(&n.Expr)...)
		if n.Param != nil {
			out = append(out, slots(&n.Param)...)
		}
	case *parser.BinaryExpr:
		out = append(out, slots(&n.LHS)...)
		out = append(out, slots(&n.RHS)...)
	case *parser.Call:
		for i := range n.Args {
			out = append(out, slots(&n.Args[i])...)
		}
	case *parser.ParenExpr:
		out = append(out, slots(&n.Expr)...)
	case *parser.UnaryExpr:
		out = append(out, slots(&n.Expr)...)
	case *parser.SubqueryExpr:
		out = append(out, slots(&n.Expr)...)
	case *parser.StepInvariantExpr:
		out = append(out, slots(&n.Expr)...)
	}
	return out
}

// Mutations returns single-step simplifications of q, biggest simplification first. Every
// returned string parses.
func Mutations(q string) []string {
	base, err := parser.ParseExpr(q)
	if err != nil {
		return nil
	}
	nSlots := len(slots(&base))
	seen := map[string]bool{q: true, base.String(): true}
	var out []string
	add := func(e parser.Expr) {
		s := e.String()
		if seen[s] {
			return
		}
		seen[s] = true
		if _, err := parser.ParseExpr(s); err != nil {
			return
		}
		out = append(out, s)
	}
	// hoist any subtree of vector/scalar type to the root
	for i := 1; i < nSlots; i++ {
		e, _ := parser.ParseExpr(q)
		sl := slots(&e)
		sub := *sl[i]
		if t := sub.Type(); t == parser.ValueTypeVector || t == parser.ValueTypeScalar {
			add(sub)
		}
	}
	// in-place edits
	const maxEdits = 14
	for i := 0; i < nSlots; i++ {
		for k := 0; k < maxEdits; k++ {
			e, _ := parser.ParseExpr(q)
			sl := slots(&e)
			if edit(sl[i], k) {
				add(e)
			}
		}
	}
	sort.SliceStable(out, func(i, j int) bool { return len(out[i]) < len(out[j]) })
	return out
}

func one() parser.Expr { return &parser.NumberLiteral{Val: 1} }

func edit(s *parser.Expr, k int) bool {
	switch n := (*s).(type) {
	case *parser.ParenExpr:
		if k == 0 {
			*s = n.Expr
			return true
		}
	case *parser.UnaryExpr:
		if k == 0 {
			*s = n.Expr
			return true
		}
	case *parser.Call:
		switch {
		case k < len(n.Args):
			if n.Args[k].Type() == n.Type() {
				*s = n.Args[k]
				return true
			}
		case k == 10 && n.Type() == parser.ValueTypeScalar:
			*s = one()
			return true
		}
	case *parser.AggregateExpr:
		switch k {
		case 0:
			*s = n.Expr
			return true
		case 1:
			if len(n.Grouping) > 0 || n.Without {
				n.Grouping, n.Without = nil, false
				return true
			}
		case 2:
			if len(n.Grouping) > 1 {
				n.Grouping = n.Grouping[:len(n.Grouping)-1]
				return true
			}
		case 3:
			if len(n.Grouping) > 1 {
				n.Grouping = n.Grouping[1:]
				return true
			}
		case 4:
			if n.Param != nil {
				if _, ok := n.Param.(*parser.NumberLiteral); !ok && n.Param.Type() == parser.ValueTypeScalar {
					n.Param = one()
					return true
				}
			}
		}
	case *parser.BinaryExpr:
		switch k {
		case 0:
			if n.LHS.Type() == n.Type() {
				*s = n.LHS
				return true
			}
		case 1:
			if n.RHS.Type() == n.Type() {
				*s = n.RHS
				return true
			}
		case 2:
			if n.ReturnBool && !(n.LHS.Type() == parser.ValueTypeScalar && n.RHS.Type() == parser.ValueTypeScalar) {
				n.ReturnBool = false
				return true
			}
		case 3:
			if vm := n.VectorMatching; vm != nil && len(vm.Include) > 0 {
				vm.Include = nil
				return true
			}
		case 4:
			if vm := n.VectorMatching; vm != nil && vm.Card != parser.CardOneToOne && !n.Op.IsSetOperator() {
				vm.Card = parser.CardOneToOne
				vm.Include = nil
				return true
			}
		case 5:
			if vm := n.VectorMatching; vm != nil && (vm.On || len(vm.MatchingLabels) > 0) {
				vm.On = false
				vm.MatchingLabels = nil
				return true
			}
		case 6:
			if vm := n.VectorMatching; vm != nil && len(vm.MatchingLabels) > 1 {
				vm.MatchingLabels = vm.MatchingLabels[1:]
				return true
			}
		case 7:
			if n.LHS.Type() == parser.ValueTypeScalar {
				if _, ok := n.LHS.(*parser.NumberLiteral); !ok {
					n.LHS = one()
					return true
				}
			}
		case 8:
			if n.RHS.Type() == parser.ValueTypeScalar {
				if _, ok := n.RHS.(*parser.NumberLiteral); !ok {
					n.RHS = one()
					return true
				}
			}
		}
	case *parser.NumberLiteral:
		if k == 0 && n.Val != 1 && n.Val == n.Val && n.Val < 1e15 && n.Val > -1e15 && n.Val != 0 {
			n.Val = 1
			return true
		}
	case *parser.VectorSelector:
		return editVS(n, k)
	case *parser.MatrixSelector:
		if vs, ok := n.VectorSelector.(*parser.VectorSelector); ok {
			return editVS(vs, k)
		}
	}
	return false
}

func editVS(n *parser.VectorSelector, k int) bool {
	switch k {
	case 0:
		if n.OriginalOffset != 0 {
			n.OriginalOffset = 0
			return true
		}
	case 1:
		if n.Timestamp != nil || n.StartOrEnd != 0 {
			n.Timestamp = nil
			n.StartOrEnd = 0
			return true
		}
	case 2:
		if len(n.LabelMatchers) > 1 {
			var keep []*labels.Matcher
			for _, m := range n.LabelMatchers {
				if m.Name == "__name__" {
					keep = append(keep, m)
				}
			}
			if len(keep) > 0 && len(keep) < len(n.LabelMatchers) {
				n.LabelMatchers = keep
				return true
			}
		}
	case 3:
		if len(n.LabelMatchers) > 2 {
			n.LabelMatchers = n.LabelMatchers[:len(n.LabelMatchers)-1]
			return true
		}
	}
	return false
}
