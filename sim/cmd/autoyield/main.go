// autoyield instruments a scratch copy of the engine: before/after every synchronisation
// operation (channel send, receive, close, select, WaitGroup Done/Wait, mutex Lock/Unlock,
// Once.Do, go statements) it inserts a call verifhook.Yield("auto:<file>:<line>"), and it brackets
// regions in which the goroutine holds a mutex or runs inside a sync.Once with
// Yield("auto:+") / Yield("auto:-") so that the simulator never deschedules there (a goroutine
// blocked on a sync.Mutex is not durably blocked for testing/synctest).
//
// The insertions are textual and stay on the line of the statement, so line numbers in stack
// traces are those of the original tree.
//
// usage: autoyield <root of the copy>
package main

import (
	"bytes"
	"fmt"
	"go/ast"
	"go/parser"
	"go/token"
	"os"
	"path/filepath"
	"sort"
	"strings"
)

type ins struct {
	off  int
	text string
	seq  int
}

const alias = "vhauto"

func main() {
	if len(os.Args) != 2 && len(os.Args) != 3 {
		fmt.Fprintln(os.Stderr, "usage: autoyield <root> [file with race-directed sites, one rel/path.go:line per line]")
		os.Exit(2)
	}
	root := os.Args[1]
	directed = map[string]map[int]bool{}
	if len(os.Args) == 3 {
		b, err := os.ReadFile(os.Args[2])
		if err != nil {
			fmt.Fprintln(os.Stderr, "autoyield:", err)
			os.Exit(2)
		}
		for _, l := range strings.Fields(string(b)) {
			i := strings.LastIndex(l, ":")
			if i < 0 {
				continue
			}
			var line int
			fmt.Sscanf(l[i+1:], "%d", &line)
			if line > 0 {
				if directed[l[:i]] == nil {
					directed[l[:i]] = map[int]bool{}
				}
				directed[l[:i]][line] = true
			}
		}
	}
	mod := modulePath(filepath.Join(root, "go.mod"))
	if mod == "" {
		fmt.Fprintln(os.Stderr, "autoyield: no module path in go.mod")
		os.Exit(2)
	}
	files, sites := 0, 0
	// callees of `go x.m(...)` / `go f(...)` statements, per directory: they are registered at the
	// top of their body (the hand-written hooks do the same for pull and start)
	goCallees = map[string]map[string]bool{}
	_ = filepath.Walk(root, func(p string, fi os.FileInfo, err error) error {
		if err != nil || fi.IsDir() || !strings.HasSuffix(p, ".go") || strings.HasSuffix(p, "_test.go") {
			return nil
		}
		f, err := parser.ParseFile(token.NewFileSet(), p, nil, 0)
		if err != nil {
			return nil
		}
		ast.Inspect(f, func(n ast.Node) bool {
			g, ok := n.(*ast.GoStmt)
			if !ok {
				return true
			}
			name := ""
			switch fn := g.Call.Fun.(type) {
			case *ast.SelectorExpr:
				name = "." + fn.Sel.Name
			case *ast.Ident:
				name = fn.Name
			}
			if name != "" {
				d := filepath.Dir(p)
				if goCallees[d] == nil {
					goCallees[d] = map[string]bool{}
				}
				goCallees[d][name] = true
			}
			return true
		})
		return nil
	})
	err := filepath.Walk(root, func(p string, fi os.FileInfo, err error) error {
		if err != nil {
			return err
		}
		if fi.IsDir() {
			switch fi.Name() {
			case ".git", "verifhook", "scripts", "docs", "testdata":
				return filepath.SkipDir
			}
			return nil
		}
		if !strings.HasSuffix(p, ".go") || strings.HasSuffix(p, "_test.go") {
			return nil
		}
		rel, _ := filepath.Rel(root, p)
		n, err := rewrite(p, rel, mod)
		if err != nil {
			return fmt.Errorf("%s: %w", rel, err)
		}
		if n > 0 {
			files++
			sites += n
		}
		return nil
	})
	if err != nil {
		fmt.Fprintln(os.Stderr, "autoyield:", err)
		os.Exit(1)
	}
	if len(directed) > 0 {
		fmt.Printf("autoyield: %d sites in %d files, %d of them race-directed\n", sites, files, directedPlaced)
	} else {
		fmt.Printf("autoyield: %d sites in %d files\n", sites, files)
	}
}

func modulePath(gomod string) string {
	b, err := os.ReadFile(gomod)
	if err != nil {
		return ""
	}
	for _, l := range strings.Split(string(b), "\n") {
		l = strings.TrimSpace(l)
		if strings.HasPrefix(l, "module ") {
			return strings.TrimSpace(strings.TrimPrefix(l, "module "))
		}
	}
	return ""
}

var goCallees map[string]map[string]bool

// directed: statements the race detector named as one side of a data race (file -> lines). A
// forced yield ("auto!:") goes in front of each, also inside sync.Once regions, so that the
// simulator can put the other access in between.
var directed map[string]map[int]bool
var directedPlaced int

type rewriter struct {
	fset *token.FileSet
	rel  string
	list []ins
	n    int
}

func (r *rewriter) off(p token.Pos) int { return r.fset.Position(p).Offset }

func (r *rewriter) add(p token.Pos, text string) {
	off := r.off(p)
	for _, in := range r.list {
		if in.off == off && in.text == text {
			return // the same yield asked for twice (first statement of a select case)
		}
	}
	r.list = append(r.list, ins{off: off, text: text, seq: len(r.list)})
}

func (r *rewriter) yield(at token.Pos) string {
	r.n++
	return fmt.Sprintf("%s.Yield(\"auto:%s:%d\")", alias, r.rel, r.fset.Position(at).Line)
}

func (r *rewriter) before(s ast.Stmt) { r.add(s.Pos(), r.yield(s.Pos())+"; ") }
func (r *rewriter) after(s ast.Stmt)  { r.add(s.End(), "; "+r.yield(s.Pos())) }

const (
	quietOn   = alias + `.Yield("auto:+")`
	quietOff  = alias + `.Yield("auto:-")`
	quietOnO  = alias + `.Yield("auto:o+")`
	quietOffO = alias + `.Yield("auto:o-")`
)

func methodName(e ast.Expr) (string, *ast.CallExpr) {
	call, ok := e.(*ast.CallExpr)
	if !ok {
		return "", nil
	}
	switch f := call.Fun.(type) {
	case *ast.SelectorExpr:
		return f.Sel.Name, call
	case *ast.Ident:
		return f.Name, call
	}
	return "", call
}

func isRecv(e ast.Expr) bool {
	for {
		p, ok := e.(*ast.ParenExpr)
		if !ok {
			break
		}
		e = p.X
	}
	u, ok := e.(*ast.UnaryExpr)
	return ok && u.Op == token.ARROW
}

// hasRecv: a channel receive somewhere in the expressions, not inside nested blocks or
// function literals (those are visited on their own).
func hasRecv(nodes ...ast.Node) bool {
	found := false
	for _, n := range nodes {
		if n == nil || found {
			continue
		}
		ast.Inspect(n, func(n ast.Node) bool {
			switch n := n.(type) {
			case *ast.BlockStmt, *ast.FuncLit:
				return false
			case *ast.UnaryExpr:
				if n.Op == token.ARROW {
					found = true
				}
			}
			return !found
		})
	}
	return found
}

// registers: the function literal starts with `defer verifhook.Go(...)()`.
func registers(fl *ast.FuncLit) bool { return registersBody(fl.Body) }

func registersBody(b *ast.BlockStmt) bool {
	if len(b.List) == 0 {
		return false
	}
	d, ok := b.List[0].(*ast.DeferStmt)
	if !ok {
		return false
	}
	inner, ok := d.Call.Fun.(*ast.CallExpr)
	if !ok {
		return false
	}
	sel, ok := inner.Fun.(*ast.SelectorExpr)
	if !ok || sel.Sel.Name != "Go" {
		return false
	}
	id, ok := sel.X.(*ast.Ident)
	return ok && id.Name == "verifhook"
}

func (r *rewriter) stmt(s ast.Stmt) {
	switch s := s.(type) {
	case *ast.IfStmt:
		var init ast.Node
		if s.Init != nil {
			init = s.Init
		}
		if hasRecv(init, s.Cond) {
			r.before(s)
		}
	case *ast.ReturnStmt:
		for _, e := range s.Results {
			if hasRecv(e) {
				r.before(s)
				break
			}
		}
	case *ast.SendStmt:
		r.before(s)
		r.after(s) // the receiver is runnable now
	case *ast.ExprStmt:
		if isRecv(s.X) {
			r.before(s)
			r.after(s)
			return
		}
		name, call := methodName(s.X)
		if call == nil {
			return
		}
		_, isSel := call.Fun.(*ast.SelectorExpr)
		switch {
		case !isSel && name == "close" && len(call.Args) == 1:
			r.before(s)
			r.after(s) // every receiver is runnable now
		case isSel && (name == "Lock" || name == "RLock") && len(call.Args) == 0:
			r.before(s)
			r.add(s.End(), "; "+quietOn)
		case isSel && (name == "Unlock" || name == "RUnlock") && len(call.Args) == 0:
			r.add(s.Pos(), quietOff+"; ")
			r.after(s)
		case isSel && name == "Do" && len(call.Args) == 1:
			if _, ok := call.Args[0].(*ast.FuncLit); ok {
				r.add(s.Pos(), "func() { "+quietOnO+"; defer "+quietOffO+"; ")
				r.add(s.End(), " }()")
			}
		case isSel && name == "Wait" && len(call.Args) == 0:
			r.before(s)
			r.after(s)
		case isSel && name == "Done" && len(call.Args) == 0:
			r.before(s)
			r.after(s)
		case (name == "cancel" || name == "Cancel") && len(call.Args) == 0:
			// a cancellation becoming visible to the other goroutines
			r.before(s)
			r.after(s)
		default:
			if hasRecv(s.X) {
				r.before(s)
			}
		}
	case *ast.AssignStmt:
		if len(s.Rhs) == 1 && isRecv(s.Rhs[0]) {
			r.before(s)
			r.after(s)
		} else {
			for _, e := range s.Rhs {
				if hasRecv(e) {
					r.before(s)
					break
				}
			}
		}
	case *ast.SelectStmt:
		r.before(s)
	case *ast.GoStmt:
		r.after(s)
		// a goroutine the tree starts without registering it would run outside the scheduler
		if fl, ok := s.Call.Fun.(*ast.FuncLit); ok && !registers(fl) {
			r.add(fl.Body.Lbrace+1, fmt.Sprintf(" defer %s.Go(\"auto.go:%s:%d\", 0)();", alias, r.rel, r.fset.Position(s.Pos()).Line))
		}
	case *ast.DeferStmt:
		name, call := methodName(s.Call)
		if call == nil {
			return
		}
		_, isSel := call.Fun.(*ast.SelectorExpr)
		switch {
		case isSel && (name == "Unlock" || name == "RUnlock") && len(call.Args) == 0:
			r.add(call.Pos(), "func() { "+quietOff+"; ")
			r.add(call.End(), " }()")
		case isSel && name == "Done" && len(call.Args) == 0:
			r.add(call.Pos(), "func() { "+r.yield(s.Pos())+"; ")
			r.add(call.End(), "; "+r.yield(s.Pos())+" }()")
		case !isSel && name == "close" && len(call.Args) == 1:
			r.add(call.Pos(), "func() { "+r.yield(s.Pos())+"; ")
			r.add(call.End(), " }()")
		}
	}
}

func (r *rewriter) list_(l []ast.Stmt) {
	for _, s := range l {
		r.stmt(s)
	}
}

func rewrite(path, rel, mod string) (int, error) {
	src, err := os.ReadFile(path)
	if err != nil {
		return 0, err
	}
	// files with build constraints (the hand-written hook files) are left alone
	head := src
	if i := bytes.Index(src, []byte("\npackage ")); i >= 0 {
		head = src[:i]
	}
	if bytes.Contains(head, []byte("//go:build")) || bytes.Contains(head, []byte("// +build")) {
		return 0, nil
	}
	fset := token.NewFileSet()
	f, err := parser.ParseFile(fset, path, src, parser.ParseComments)
	if err != nil {
		return 0, err
	}
	r := &rewriter{fset: fset, rel: filepath.ToSlash(rel)}
	callees := goCallees[filepath.Dir(path)]
	ast.Inspect(f, func(n ast.Node) bool {
		switch n := n.(type) {
		case *ast.FuncDecl:
			key := n.Name.Name
			if n.Recv != nil {
				key = "." + key
			}
			if n.Body != nil && callees[key] && !registersBody(n.Body) {
				r.add(n.Body.Lbrace+1, fmt.Sprintf(" defer %s.Go(\"auto.go:%s:%s\", 0)();", alias, r.rel, n.Name.Name))
				r.n++
			}
		case *ast.BlockStmt:
			r.list_(n.List)
		case *ast.CaseClause:
			r.list_(n.Body)
		case *ast.CommClause:
			r.list_(n.Body)
			if len(n.Body) > 0 {
				// the goroutine got past the select: a scheduling point of its own
				r.add(n.Body[0].Pos(), r.yield(n.Body[0].Pos())+"; ")
			}
		}
		return true
	})
	if lines := directed[r.rel]; len(lines) > 0 {
		// statements in list context, innermost first: the smallest one that starts at or spans the line
		type cand struct {
			s    ast.Stmt
			size int
		}
		best := map[int]cand{}
		consider := func(l []ast.Stmt) {
			for _, st := range l {
				if _, ok := st.(*ast.LabeledStmt); ok {
					continue
				}
				from, to := fset.Position(st.Pos()).Line, fset.Position(st.End()).Line
				for line := range lines {
					if line < from || line > to {
						continue
					}
					size := to - from
					if from == line {
						size = -1 // a statement starting on the line wins
					}
					if b, ok := best[line]; !ok || size < b.size {
						best[line] = cand{st, size}
					}
				}
			}
		}
		ast.Inspect(f, func(n ast.Node) bool {
			switch n := n.(type) {
			case *ast.BlockStmt:
				consider(n.List)
			case *ast.CaseClause:
				consider(n.Body)
			case *ast.CommClause:
				consider(n.Body)
			}
			return true
		})
		for line, b := range best {
			r.add(b.s.Pos(), fmt.Sprintf("%s.Yield(\"auto!:%s:%d\"); ", alias, r.rel, line))
			r.n++
			directedPlaced++
		}
	}
	if len(r.list) == 0 {
		return 0, nil
	}
	r.add(f.Name.End(), fmt.Sprintf("; import %s %q", alias, mod+"/verifhook"))
	// apply from the end; insertions at one offset keep their order of creation
	sort.SliceStable(r.list, func(i, j int) bool {
		if r.list[i].off != r.list[j].off {
			return r.list[i].off > r.list[j].off
		}
		return r.list[i].seq > r.list[j].seq
	})
	out := src
	for _, in := range r.list {
		out = append(out[:in.off:in.off], append([]byte(in.text), out[in.off:]...)...)
	}
	// must still parse
	if _, err := parser.ParseFile(token.NewFileSet(), path, out, 0); err != nil {
		return 0, fmt.Errorf("instrumented file does not parse: %w", err)
	}
	return r.n, os.WriteFile(path, out, 0o644)
}
