package verifsim

import (
	"testing"

	"verifsim/core"
)

func TestSim(t *testing.T) { core.Main(t) }
