// Package store is the simulated storage.Queryable: the engine's only I/O seam. Every callback is
// numbered, is a scheduling point and is a fault point.
package store

import (
	"context"
	"encoding/json"
	"fmt"
	"math"
	"math/rand"
	"sort"
	"strconv"
	"sync"
	"time"

	"github.com/prometheus/prometheus/model/histogram"
	"github.com/prometheus/prometheus/model/labels"
	"github.com/prometheus/prometheus/model/value"
	"github.com/prometheus/prometheus/storage"
	"github.com/prometheus/prometheus/tsdb/chunkenc"
	"github.com/thanos-community/promql-engine/verifhook"

	"verifsim/sched"
)

// F is a float64 that survives JSON: finite values as numbers, the rest as strings.
type F float64

func (f F) MarshalJSON() ([]byte, error) {
	v := float64(f)
	switch {
	case value.IsStaleNaN(v):
		return []byte(`"stale"`), nil
	case math.IsNaN(v):
		return []byte(`"NaN"`), nil
	case math.IsInf(v, 1):
		return []byte(`"+Inf"`), nil
	case math.IsInf(v, -1):
		return []byte(`"-Inf"`), nil
	}
	return []byte(strconv.FormatFloat(v, 'g', -1, 64)), nil
}

func (f *F) UnmarshalJSON(b []byte) error {
	var s string
	if len(b) > 0 && b[0] == '"' {
		if err := json.Unmarshal(b, &s); err != nil {
			return err
		}
		switch s {
		case "stale":
			*f = F(math.Float64frombits(value.StaleNaN))
		case "NaN":
			*f = F(math.NaN())
		case "+Inf":
			*f = F(math.Inf(1))
		case "-Inf":
			*f = F(math.Inf(-1))
		default:
			return fmt.Errorf("bad float %q", s)
		}
		return nil
	}
	v, err := strconv.ParseFloat(string(b), 64)
	*f = F(v)
	return err
}

// Series is one stored series. L is a flat name,value list.
type Series struct {
	L []string `json:"l"`
	T []int64  `json:"t"`
	V []F      `json:"v"`
}

func (s Series) Labels() labels.Labels { return labels.FromStrings(s.L...) }

// Fault is one injected fault. Positional kinds fire at the At-th storage callback of the
// operation (1-based); an `err` fault that lands on a callback kind that cannot fail moves on to
// the next one that can.
type Fault struct {
	Kind string `json:"kind"` // err | panic | cancel | stall | delay
	At   int    `json:"at"`
	Ms   int64  `json:"ms,omitempty"`
}

// Cfg is the legal-behaviour variation of the storage.
type Cfg struct {
	PermSeed     int64 `json:"perm_seed,omitempty"`     // != 0: Select returns series in a seeded permutation
	Trim         bool  `json:"trim,omitempty"`          // drop samples outside the hinted / querier range
	SharedLabels bool  `json:"shared_labels,omitempty"` // hand out the very same label slices on every call
	YieldEvery   int   `json:"yield_every,omitempty"`   // park at every n-th callback (0: never)
	LatencyUs    int64 `json:"latency_us,omitempty"`    // fake time spent in every callback
	CtxErrors    bool  `json:"ctx_errors,omitempty"`    // a call that can fail reports the context's error once the context is done, as remote storages do
	HoldRoutine  bool  `json:"hold_routine,omitempty"`  // every querier runs a goroutine of its own until it is closed (a stream, a reader reference)
}

type SelectRec struct {
	Matchers string              `json:"matchers"`
	Hints    storage.SelectHints `json:"hints"`
	Mint     int64               `json:"mint"`
	Maxt     int64               `json:"maxt"`
	Sorted   bool                `json:"sorted"`
}

type QuerierRec struct {
	OpenStep  int `json:"open_step"`
	Closes    int `json:"closes"`
	CloseStep int `json:"close_step"`
	Selects   int `json:"selects"`
}

// Acct is what the storage saw during one operation.
type Acct struct {
	N         int
	Kinds     []uint8 // kind of callback n (index n-1), capped
	Queriers  []*QuerierRec
	Selects   []SelectRec
	Fired     map[string]int
	Delivered []string // ids of injected errors that were handed to the engine
	Stalled   int      // stall faults that blocked
	StallLive int      // of those, blocked on a context that was never cancelled
	Samples   int
	// ClientCancelAt: callback count when another task's Cancel()/Close() returned while Exec was
	// running (0 = never); LiveAfterCancel: callbacks after that which still saw a live context.
	ClientCancelAt  int
	LiveAfterCancel []string
}

const (
	KQuerier = iota + 1
	KSelect
	KSSNext
	KSSAt
	KSSErr
	KLabels
	KIterator
	KSeek
	KNext
	KAt
	KItErr
	KClose
)

var KindNames = map[uint8]string{KQuerier: "querier", KSelect: "select", KSSNext: "ss.next", KSSAt: "ss.at", KSSErr: "ss.err",
	KLabels: "labels", KIterator: "iterator", KSeek: "it.seek", KNext: "it.next", KAt: "it.at", KItErr: "it.err", KClose: "close"}

// InjectedError is the unique error value of one fault.
type InjectedError struct{ ID string }

func (e *InjectedError) Error() string { return "injected storage error " + e.ID }

type stored struct {
	lbls   labels.Labels
	shared labels.Labels
	t      []int64
	v      []float64
}

// Store implements storage.Queryable over in-memory series.
type Store struct {
	mu     sync.Mutex
	series []*stored
	cfg    Cfg
	plain  bool

	acct   *Acct
	faults []Fault
	used   []bool
	cancel func()
	errSeq int
}

func New(data []Series, cfg Cfg, plain bool) *Store {
	s := &Store{cfg: cfg, plain: plain, acct: newAcct()}
	for _, d := range data {
		s.appendSeries(d)
	}
	return s
}

func newAcct() *Acct { return &Acct{Fired: map[string]int{}} }

func (s *Store) appendSeries(d Series) {
	st := &stored{lbls: d.Labels()}
	st.shared = st.lbls.Copy()
	st.t = append(st.t, d.T...)
	for _, v := range d.V {
		st.v = append(st.v, float64(v))
	}
	s.series = append(s.series, st)
}

// Append adds samples to an existing series (same label set) or creates the series.
func (s *Store) Append(d Series) {
	s.mu.Lock()
	defer s.mu.Unlock()
	l := d.Labels()
	for _, st := range s.series {
		if labels.Equal(st.lbls, l) {
			// copy-on-write so that iterators handed out earlier keep their view
			// like a TSDB, the storage rejects samples that are not newer than the series' last
			nt := append([]int64{}, st.t...)
			nv := append([]float64{}, st.v...)
			for i, t := range d.T {
				if len(nt) > 0 && t <= nt[len(nt)-1] {
					continue
				}
				nt = append(nt, t)
				nv = append(nv, float64(d.V[i]))
			}
			st.t, st.v = nt, nv
			return
		}
	}
	s.appendSeries(d)
}

// BeginOp resets accounting and installs the fault plan of the next operation.
func (s *Store) BeginOp(faults []Fault, cancel func()) {
	s.mu.Lock()
	defer s.mu.Unlock()
	s.acct = newAcct()
	s.faults = faults
	s.used = make([]bool, len(faults))
	s.cancel = cancel
}

func (s *Store) SetCancel(cancel func()) {
	s.mu.Lock()
	s.cancel = cancel
	s.mu.Unlock()
}

// NoteClientCancel records that a client's Cancel()/Close() has returned while Exec was running.
func (s *Store) NoteClientCancel() {
	s.mu.Lock()
	if s.acct.ClientCancelAt == 0 {
		s.acct.ClientCancelAt = s.acct.N + 1
	}
	s.mu.Unlock()
}

// Acct returns the accounting of the current operation.
func (s *Store) Acct() *Acct {
	s.mu.Lock()
	defer s.mu.Unlock()
	return s.acct
}

// SharedIntact verifies that no label set handed out in shared mode was modified.
func (s *Store) SharedIntact() error {
	s.mu.Lock()
	defer s.mu.Unlock()
	for i, st := range s.series {
		if !labels.Equal(st.lbls, st.shared) || len(st.lbls) != len(st.shared) {
			return fmt.Errorf("series %d: storage-owned labels modified: have %s want %s", i, st.shared.String(), st.lbls.String())
		}
	}
	return nil
}

type outcome struct {
	err   error
	fired string
}

// cb is the heart of the seam: count, fault, yield.
func (s *Store) cb(ctx context.Context, kind uint8) (injected error) {
	if s.plain {
		return nil
	}
	s.mu.Lock()
	a := s.acct
	a.N++
	n := a.N
	if len(a.Kinds) < 1<<16 {
		a.Kinds = append(a.Kinds, kind)
	}
	if a.ClientCancelAt > 0 && ctx != nil && ctx.Err() == nil && len(a.LiveAfterCancel) < 4 {
		a.LiveAfterCancel = append(a.LiveAfterCancel, fmt.Sprintf("%s#%d", KindNames[kind], n))
	}
	var doPanic, doCancel, doStall bool
	var delay time.Duration
	canFail := kind == KQuerier || kind == KSSNext || kind == KSeek || kind == KNext
	for i, f := range s.faults {
		if s.used[i] || n < f.At {
			continue
		}
		switch f.Kind {
		case "err":
			if canFail {
				s.used[i] = true
				s.errSeq++
				e := &InjectedError{ID: "E#" + strconv.Itoa(f.At) + "." + strconv.Itoa(s.errSeq)}
				a.Delivered = append(a.Delivered, e.ID)
				a.Fired["err@"+KindNames[kind]]++
				injected = e
			}
		case "panic":
			s.used[i] = true
			a.Fired["panic@"+KindNames[kind]]++
			doPanic = true
		case "cancel":
			s.used[i] = true
			a.Fired["cancel@"+KindNames[kind]]++
			doCancel = true
		case "stall":
			if kind == KClose {
				continue
			}
			s.used[i] = true
			a.Fired["stall@"+KindNames[kind]]++
			doStall = true
		case "delay":
			s.used[i] = true
			a.Fired["delay@"+KindNames[kind]]++
			delay += time.Duration(f.Ms) * time.Millisecond
		}
	}
	cancel := s.cancel
	ye := s.cfg.YieldEvery
	lat := time.Duration(s.cfg.LatencyUs) * time.Microsecond
	s.mu.Unlock()

	task, _ := sched.Current()
	sched.Note("cb %d %s %s", n, KindNames[kind], task)
	if doCancel && cancel != nil {
		cancel()
	}
	if doPanic {
		// what a storage panics with varies with the callback's number: a string and a plain error
		// (panic(fmt.Errorf(..))) are as common in storage code as a runtime.Error
		switch n % 3 {
		case 1:
			panic(fmt.Sprintf("storage: corrupted index at callback %d", n))
		case 2:
			panic(fmt.Errorf("storage: broken chunk at callback %d", n))
		}
		var empty []int
		_ = empty[n] // a genuine runtime.Error: index out of range
	}
	blocked := false
	if d := delay + lat; d > 0 {
		s.block(func() { time.Sleep(d) })
		blocked = true
	}
	if doStall {
		s.mu.Lock()
		a.Stalled++
		s.mu.Unlock()
		if ctx == nil {
			ctx = context.Background()
		}
		s.block(func() {
			select {
			case <-ctx.Done():
			case <-time.After(4 * time.Hour): // fake time; the storage gives up eventually
				s.mu.Lock()
				a.StallLive++
				s.mu.Unlock()
			}
		})
		blocked = true
	}
	if blocked {
		// several sleepers can wake at the same fake instant, in an order nobody controls: each
		// hands control back to the scheduler before it touches anything
		sched.Yield("store.woke")
	} else if ye > 0 && n%ye == 0 && kind != KAt && kind != KSSAt && kind != KItErr && kind != KSSErr {
		sched.Yield("store." + KindNames[kind])
	}
	if injected == nil && canFail && s.cfg.CtxErrors && ctx != nil && ctx.Err() != nil {
		// not an injected fault (the query is cancelled anyway): the storage's way of saying so
		s.mu.Lock()
		a.Fired["ctxerr@"+KindNames[kind]]++
		s.mu.Unlock()
		return ctx.Err()
	}
	return injected
}

func (s *Store) block(f func()) {
	if sched.InNoPark() {
		defer sched.BlockExclusive()()
	}
	f()
}

func (s *Store) Querier(ctx context.Context, mint, maxt int64) (storage.Querier, error) {
	q := &querier{s: s, ctx: ctx, mint: mint, maxt: maxt}
	if !s.plain {
		_, step := sched.Current()
		q.rec = &QuerierRec{OpenStep: step, CloseStep: -1}
	}
	if err := s.cb(ctx, KQuerier); err != nil {
		return nil, err
	}
	if q.rec != nil {
		s.mu.Lock()
		s.acct.Queriers = append(s.acct.Queriers, q.rec)
		s.mu.Unlock()
	}
	if s.cfg.HoldRoutine && !s.plain {
		// what a real storage holds for an open querier: it lives until Close, so a querier the
		// engine forgets is a goroutine that outlives the query
		q.done = make(chan struct{})
		go func() {
			defer verifhook.Go("store.querier", 0)()
			<-q.done
		}()
	}
	return q, nil
}

type querier struct {
	s          *Store
	ctx        context.Context
	mint, maxt int64
	rec        *QuerierRec
	done       chan struct{}
	doneOnce   sync.Once
}

func (q *querier) LabelValues(string, ...*labels.Matcher) ([]string, storage.Warnings, error) {
	return nil, nil, nil
}
func (q *querier) LabelNames(...*labels.Matcher) ([]string, storage.Warnings, error) {
	return nil, nil, nil
}

func (q *querier) Close() error {
	// the call is what the engine owes the storage; count it before any fault fires inside it
	if q.rec != nil {
		_, step := sched.Current()
		q.s.mu.Lock()
		q.rec.Closes++
		q.rec.CloseStep = step
		q.s.mu.Unlock()
	}
	if q.done != nil {
		q.doneOnce.Do(func() { close(q.done) })
	}
	q.s.cb(nil, KClose)
	return nil
}

func (q *querier) Select(sortSeries bool, hints *storage.SelectHints, ms ...*labels.Matcher) storage.SeriesSet {
	s := q.s
	s.cb(q.ctx, KSelect)
	lo, hi := int64(math.MinInt64), int64(math.MaxInt64)
	if s.cfg.Trim {
		lo, hi = q.mint, q.maxt
		if hints != nil {
			if hints.Start > lo {
				lo = hints.Start
			}
			if hints.End < hi {
				hi = hints.End
			}
		}
	}
	s.mu.Lock()
	if !s.plain {
		rec := SelectRec{Mint: q.mint, Maxt: q.maxt, Sorted: sortSeries}
		if hints != nil {
			rec.Hints = *hints
			rec.Hints.Grouping = append([]string(nil), hints.Grouping...)
		}
		strs := make([]string, len(ms))
		for i, m := range ms {
			strs[i] = m.String()
		}
		rec.Matchers = fmt.Sprint(strs)
		s.acct.Selects = append(s.acct.Selects, rec)
		if q.rec != nil {
			q.rec.Selects++
		}
	}
	var out []*stored
	for _, st := range s.series {
		ok := true
		for _, m := range ms {
			if !m.Matches(st.lbls.Get(m.Name)) {
				ok = false
				break
			}
		}
		if ok {
			out = append(out, st)
		}
	}
	perm := s.cfg.PermSeed
	s.mu.Unlock()
	if sortSeries || perm == 0 {
		sort.SliceStable(out, func(i, j int) bool { return labels.Compare(out[i].lbls, out[j].lbls) < 0 })
	} else {
		sort.SliceStable(out, func(i, j int) bool { return labels.Compare(out[i].lbls, out[j].lbls) < 0 })
		r := rand.New(rand.NewSource(perm))
		r.Shuffle(len(out), func(i, j int) { out[i], out[j] = out[j], out[i] })
	}
	return &seriesSet{q: q, list: out, i: -1, lo: lo, hi: hi}
}

type seriesSet struct {
	q      *querier
	list   []*stored
	i      int
	lo, hi int64
	err    error
}

func (ss *seriesSet) Next() bool {
	if ss.err != nil {
		return false
	}
	if err := ss.q.s.cb(ss.q.ctx, KSSNext); err != nil {
		ss.err = err
		return false
	}
	ss.i++
	return ss.i < len(ss.list)
}

func (ss *seriesSet) At() storage.Series {
	ss.q.s.cb(ss.q.ctx, KSSAt)
	return &series{q: ss.q, st: ss.list[ss.i], lo: ss.lo, hi: ss.hi}
}

func (ss *seriesSet) Err() error {
	ss.q.s.cb(ss.q.ctx, KSSErr)
	return ss.err
}

func (ss *seriesSet) Warnings() storage.Warnings { return nil }

type series struct {
	q      *querier
	st     *stored
	lo, hi int64
}

func (se *series) Labels() labels.Labels {
	se.q.s.cb(se.q.ctx, KLabels)
	if se.q.s.cfg.SharedLabels && !se.q.s.plain {
		return se.st.shared
	}
	return se.st.lbls.Copy()
}

func (se *series) Iterator() chunkenc.Iterator {
	se.q.s.cb(se.q.ctx, KIterator)
	se.q.s.mu.Lock()
	t, v := se.st.t, se.st.v
	se.q.s.mu.Unlock()
	if se.lo != math.MinInt64 || se.hi != math.MaxInt64 {
		a := sort.Search(len(t), func(i int) bool { return t[i] >= se.lo })
		b := sort.Search(len(t), func(i int) bool { return t[i] > se.hi })
		t, v = t[a:b], v[a:b]
	}
	return &iter{q: se.q, t: t, v: v, i: -1}
}

type iter struct {
	q   *querier
	t   []int64
	v   []float64
	i   int
	err error
}

func (it *iter) Next() chunkenc.ValueType {
	if it.err != nil {
		return chunkenc.ValNone
	}
	if err := it.q.s.cb(it.q.ctx, KNext); err != nil {
		it.err = err
		it.i = len(it.t)
		return chunkenc.ValNone
	}
	if it.i < len(it.t) {
		it.i++
	}
	if it.i >= len(it.t) {
		return chunkenc.ValNone
	}
	it.count()
	return chunkenc.ValFloat
}

func (it *iter) count() {
	if !it.q.s.plain {
		it.q.s.mu.Lock()
		it.q.s.acct.Samples++
		it.q.s.mu.Unlock()
	}
}

func (it *iter) Seek(t int64) chunkenc.ValueType {
	if it.err != nil {
		return chunkenc.ValNone
	}
	if err := it.q.s.cb(it.q.ctx, KSeek); err != nil {
		it.err = err
		it.i = len(it.t)
		return chunkenc.ValNone
	}
	if it.i < 0 {
		it.i = 0
	}
	for it.i < len(it.t) && it.t[it.i] < t {
		it.i++
	}
	if it.i >= len(it.t) {
		return chunkenc.ValNone
	}
	it.count()
	return chunkenc.ValFloat
}

func (it *iter) At() (int64, float64) {
	it.q.s.cb(it.q.ctx, KAt)
	if it.i < 0 || it.i >= len(it.t) {
		return 0, 0 // unspecified by the interface; stay quiet
	}
	return it.t[it.i], it.v[it.i]
}

func (it *iter) AtHistogram() (int64, *histogram.Histogram)           { panic("no histograms") }
func (it *iter) AtFloatHistogram() (int64, *histogram.FloatHistogram) { panic("no histograms") }
func (it *iter) AtT() int64 {
	if it.i < 0 || it.i >= len(it.t) {
		return 0
	}
	return it.t[it.i]
}
func (it *iter) Err() error {
	it.q.s.cb(it.q.ctx, KItErr)
	return it.err
}
