package gen

import (
	"math"
	"math/rand"
	"sort"
	"strconv"

	"github.com/prometheus/prometheus/model/value"

	"verifsim/store"
)

type Window struct{ Start, End, Step int64 }

func (w Window) Steps() int {
	if w.Step == 0 {
		return 1
	}
	return int((w.End-w.Start)/w.Step) + 1
}

// GenWindow draws an evaluation window. Step counts cover 1..35 and a sample of larger ones.
func GenWindow(r *rand.Rand, pInstant float64, big bool) Window {
	bases := []int64{0, 1000000, 1234567, 600000, 86400000, 1700000000000}
	start := bases[r.Intn(len(bases))]
	if r.Intn(4) == 0 {
		start += int64(r.Intn(100000))
	}
	if r.Float64() < pInstant {
		return Window{start, start, 0}
	}
	steps := []int64{1000, 15000, 30000, 60000, 7000, 10000, 1, 300000, 2500}
	step := steps[r.Intn(len(steps))]
	n := 1 + r.Intn(35)
	if r.Intn(6) == 0 {
		// five and more batches: the look-ahead goroutines (two buffered batches plus one in
		// flight) recycle buffers and can overtake their consumer only from the fourth batch on
		n = []int{41, 45, 52, 57, 61}[r.Intn(5)]
	}
	if big && r.Intn(8) == 0 {
		n = []int{101, 250, 100, 110, 41}[r.Intn(5)]
	}
	end := start + int64(n-1)*step
	if r.Intn(4) == 0 && step > 1 {
		end += int64(r.Intn(int(step))) // end not on the grid
	}
	return Window{start, end, step}
}

type DataOpt struct {
	MaxSeries int
	MinSeries int
	Metrics   []string
	Hist      bool    // add classic histogram buckets h_bucket{le=...}
	Grid      bool    // place samples relative to the evaluation grid (boundary ages)
	Lookback  int64   // effective lookback, for boundary placement
	RangeMs   []int64 // ranges of interest, for boundary placement
	Offsets   []int64
	Extreme   bool // values outside the comparison-safe domain
	PStale    float64
	PSpecial  float64 // NaN/Inf
	NoTies    bool
}

var staleNaN = math.Float64frombits(value.StaleNaN)

// GenData draws a dataset for the window.
func GenData(r *rand.Rand, w Window, o DataOpt) []store.Series {
	if o.MaxSeries == 0 {
		o.MaxSeries = 12
	}
	n := o.MinSeries + r.Intn(o.MaxSeries-o.MinSeries+1)
	metrics := o.Metrics
	if len(metrics) == 0 {
		metrics = []string{"m1", "m1", "m2", "m3"}
	}
	seen := map[string]bool{}
	var out []store.Series
	span := w.End - w.Start
	for len(out) < n {
		var l []string
		name := metrics[r.Intn(len(metrics))]
		l = append(l, "__name__", name)
		for _, k := range LabelKeys {
			p := 6
			if k == "Z" {
				p = 2
			}
			if r.Intn(10) < p {
				l = append(l, k, LabelVals[r.Intn(len(LabelVals))])
			}
		}
		key := ""
		for _, x := range l {
			key += x + "\xff"
		}
		if seen[key] {
			if len(seen) >= 3*64 {
				break
			}
			// make it distinct with an extra label
			l = append(l, "d", strconv.Itoa(len(out)))
			key += "d" + strconv.Itoa(len(out))
		}
		seen[key] = true
		out = append(out, genSeries(r, w, o, l, len(out), span))
	}
	if o.Hist && r.Intn(2) == 0 {
		out = append(out, genHist(r, w, o, span)...)
	}
	if len(out) > 0 && len(metrics) > 1 && r.Intn(6) == 0 {
		for _, t := range twin(r, &out[r.Intn(len(out))]) {
			k := ""
			for _, x := range t.L {
				k += x + "\xff"
			}
			if !seen[k] { // never two stored series with the same labels
				seen[k] = true
				out = append(out, t)
			}
		}
	}
	return out
}

// twin: a second series with the same labels under another metric name; the samples of the
// original are dealt out in alternating blocks, each block closed by a staleness marker, so that
// after the name is dropped the two take turns over time without sharing a step.
func twin(r *rand.Rand, s *store.Series) []store.Series {
	if len(s.T) < 8 || len(s.L) < 2 || s.L[0] != "__name__" {
		return nil
	}
	t := store.Series{L: append([]string{}, s.L...)}
	t.L[1] = map[string]string{"m1": "m2", "m2": "m3", "m3": "m1"}[s.L[1]]
	if t.L[1] == "" {
		return nil
	}
	var keepT, moveT []int64
	var keepV, moveV []store.F
	toTwin := false
	for i := 0; i < len(s.T); {
		n := 2 + r.Intn(4)
		end := i + n
		if end > len(s.T) {
			end = len(s.T)
		}
		for j := i; j < end; j++ {
			v := s.V[j]
			if j == end-1 && end < len(s.T) {
				v = store.F(staleNaN) // cut the lookback off at the end of the block
			}
			if toTwin {
				moveT, moveV = append(moveT, s.T[j]), append(moveV, v)
			} else {
				keepT, keepV = append(keepT, s.T[j]), append(keepV, v)
			}
		}
		toTwin = !toTwin
		i = end
	}
	s.T, s.V = keepT, keepV
	t.T, t.V = moveT, moveV
	if len(t.T) == 0 {
		return nil
	}
	return []store.Series{t}
}

func interval(r *rand.Rand, span int64) int64 {
	ivs := []int64{1000, 5000, 15000, 30000, 60000, 10000}
	iv := ivs[r.Intn(len(ivs))]
	for span/iv > 300 {
		iv *= 2
	}
	return iv
}

func genSeries(r *rand.Rand, w Window, o DataOpt, l []string, idx int, span int64) store.Series {
	s := store.Series{L: l}
	iv := interval(r, span+2*o.Lookback)
	var ts []int64
	if o.Grid && r.Intn(3) != 0 {
		// samples placed at chosen ages relative to grid points
		lb := o.Lookback
		if lb == 0 {
			lb = 300000
		}
		ages := []int64{0, 1, -1, lb - 1, lb, lb + 1, lb / 2, 2 * lb}
		for _, rg := range o.RangeMs {
			ages = append(ages, rg, rg-1, rg+1)
		}
		steps := w.Steps()
		set := map[int64]bool{}
		k := 1 + r.Intn(3)
		for i := 0; i < steps && len(set) < 300; i++ {
			if r.Intn(k) != 0 {
				continue
			}
			gt := w.Start + int64(i)*w.Step
			age := ages[r.Intn(len(ages))]
			off := int64(0)
			if len(o.Offsets) > 0 {
				off = o.Offsets[r.Intn(len(o.Offsets))]
			}
			set[gt-age-off] = true
			if r.Intn(3) == 0 {
				set[gt-off-ages[r.Intn(len(ages))]] = true
			}
		}
		for t := range set {
			ts = append(ts, t)
		}
		sort.Slice(ts, func(i, j int) bool { return ts[i] < ts[j] })
	} else {
		first := w.Start - int64(r.Intn(int(10*iv+o.Lookback+1)))
		switch r.Intn(8) {
		case 0:
			first = w.Start + int64(r.Intn(int(span+1))) // starts inside the window
		case 1:
			first = w.End + 1 + int64(r.Intn(60000)) // starts after the window
		}
		last := w.End + int64(r.Intn(int(3*iv)))
		switch r.Intn(6) {
		case 0:
			last = w.Start + int64(r.Intn(int(span+1))) // ends early
		case 1:
			last = w.Start - 1 - int64(r.Intn(int(o.Lookback+iv+1))) // ends before the window
		}
		jitter := r.Intn(3) == 0
		pGap := 0.0
		if r.Intn(3) == 0 {
			pGap = 0.08
		}
		for t := first; t <= last && len(ts) < 400; t += iv {
			if r.Float64() < pGap {
				t += iv * int64(1+r.Intn(12))
				continue
			}
			tt := t
			if jitter {
				tt += int64(r.Intn(int(iv/2))) - iv/4
			}
			if len(ts) > 0 && tt <= ts[len(ts)-1] {
				continue
			}
			ts = append(ts, tt)
		}
	}
	kind := r.Intn(6)
	v := float64(r.Intn(50))
	for i, t := range ts {
		_ = t
		var x float64
		switch kind {
		case 0, 1: // counter with resets
			v += float64(r.Intn(20))
			if r.Intn(25) == 0 {
				v = float64(r.Intn(5))
			}
			x = v
		case 2: // gauge, signed
			x = float64(r.Intn(200) - 100)
		case 3: // constant
			x = v
		case 4: // dyadic fractions
			x = float64(r.Intn(64)-32) / 8
		case 5: // slowly varying
			v += float64(r.Intn(7) - 3)
			x = v
		}
		if o.NoTies {
			x = x*64 + float64(idx%64)
		}
		if o.Extreme && r.Intn(6) == 0 {
			x = []float64{1e308, -1e308, 5e-324, 1.7976931348623157e308, -5e-324, 1e300, 1e-300}[r.Intn(7)]
		}
		if r.Float64() < o.PSpecial {
			x = []float64{math.NaN(), math.Inf(1), math.Inf(-1), 0, -0.0}[r.Intn(5)]
		}
		if r.Float64() < o.PStale || (i == len(ts)-1 && r.Intn(6) == 0) {
			x = staleNaN
		}
		s.T = append(s.T, t)
		s.V = append(s.V, store.F(x))
	}
	return s
}

func genHist(r *rand.Rand, w Window, o DataOpt, span int64) []store.Series {
	var out []store.Series
	groups := 1 + r.Intn(2)
	for gi := 0; gi < groups; gi++ {
		les := []string{"0.1", "0.5", "1", "5", "+Inf"}
		if r.Intn(4) == 0 {
			les = []string{"1", "+Inf"}
		}
		if r.Intn(5) == 0 {
			les = append(les, "bogus")
		}
		iv := interval(r, span+2*o.Lookback)
		first := w.Start - int64(r.Intn(int(5*iv+1)))
		cum := make([]float64, len(les))
		name := "h_bucket"
		aval := LabelVals[gi%len(LabelVals)]
		if gi == 1 && r.Intn(2) == 0 {
			// same labels as the first histogram, another metric name
			name, aval = "h2_bucket", LabelVals[0]
		}
		base := []string{"__name__", name, "a", aval}
		if r.Intn(2) == 0 {
			base = append(base, "p", "q") // a label that sorts after "le"
		}
		ss := make([]store.Series, len(les))
		for i, le := range les {
			ss[i].L = append(append([]string{}, base...), "le", le)
		}
		for t := first; t <= w.End+iv && len(ss[0].T) < 300; t += iv {
			acc := 0.0
			for i := range les {
				cum[i] += float64(r.Intn(5))
				acc += cum[i]
				ss[i].T = append(ss[i].T, t)
				ss[i].V = append(ss[i].V, store.F(acc))
			}
		}
		out = append(out, ss...)
	}
	return out
}
