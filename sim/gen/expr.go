// Package gen: seeded generators for expressions, datasets, windows and fault plans.
package gen

import (
	"fmt"
	"math/rand"
	"strings"
)

// Profile weights the grammar. Zero weights switch a production off.
type Profile struct {
	Name     string
	Depth    int
	WSel     int // bare selector
	WRangeFn int // f(x[r])
	WInstFn  int // f(v)
	WAggr    int
	WKAggr   int // topk/bottomk/quantile (parameterised)
	WBinVV   int
	WBinVS   int
	WUnary   int
	WParen   int
	WVecOf   int // vector(s)
	WClamp   int
	WHist    int // histogram_quantile
	WTs      int // timestamp(v)
	WTwice   int // the same series read twice under different ranges / modifiers
	// scalars
	WNum    int
	WTime   int
	WPi     int
	WScalar int // scalar(v)
	WSArith int
	// modifiers
	POffset  float64
	PAt      float64
	PMatcher float64
	PBool    float64
	PMatch   float64 // on/ignoring
	PGroup   float64 // group_left/right
	PBy      float64
	Weird    bool // weird parameters (k, q) and literal domain
	Fallback bool // include constructs that need the fallback path
	Metrics  []string
	RangeMs  []int64 // candidate ranges for matrix selectors
}

type G struct {
	R *rand.Rand
	P Profile
	// window info, for @ literals and offsets
	Start, End, Step int64
	HasTopK          bool
	UsesStartEnd     bool
	NoStartEnd       bool // never generate @ start() / @ end()
}

// "Z" sorts before "__name__": label sets are not always led by the metric name.
var LabelKeys = []string{"a", "b", "c", "Z"}
var LabelVals = []string{"x", "y", "z"}

func (g *G) pick(ws ...int) int {
	t := 0
	for _, w := range ws {
		t += w
	}
	if t == 0 {
		return 0
	}
	n := g.R.Intn(t)
	for i, w := range ws {
		if n < w {
			return i
		}
		n -= w
	}
	return 0
}

func (g *G) oneOf(s ...string) string { return s[g.R.Intn(len(s))] }

func (g *G) metric() string {
	if len(g.P.Metrics) > 0 {
		return g.P.Metrics[g.R.Intn(len(g.P.Metrics))]
	}
	return g.oneOf("m1", "m1", "m2", "m3")
}

func (g *G) matchers() string {
	if g.R.Float64() >= g.P.PMatcher {
		return ""
	}
	n := 1 + g.R.Intn(2)
	var ms []string
	for i := 0; i < n; i++ {
		k := g.oneOf(LabelKeys...)
		op := g.oneOf("=", "=", "!=", "=~", "!~")
		v := g.oneOf("x", "y", "z", "", "x|y", ".+", ".*")
		if op == "=" || op == "!=" {
			v = g.oneOf("x", "y", "z", "")
		}
		ms = append(ms, fmt.Sprintf(`%s%s"%s"`, k, op, v))
	}
	return "{" + strings.Join(ms, ",") + "}"
}

func dur(ms int64) string {
	if ms < 0 {
		return "-" + dur(-ms)
	}
	if ms%1000 == 0 {
		return fmt.Sprintf("%ds", ms/1000)
	}
	return fmt.Sprintf("%dms", ms)
}

func (g *G) modifiers() string {
	s := ""
	if g.R.Float64() < g.P.POffset {
		span := g.End - g.Start + 60000
		o := int64(0)
		switch g.R.Intn(5) {
		case 0:
			o = g.Step
		case 1:
			o = 1000 * int64(1+g.R.Intn(120))
		case 2:
			o = -1000 * int64(1+g.R.Intn(60))
		case 3:
			o = int64(1 + g.R.Intn(int(span)))
		case 4:
			o = int64(g.R.Intn(3000)) + 1
		}
		if o != 0 {
			s += " offset " + dur(o)
		}
	}
	if g.R.Float64() < g.P.PAt {
		k := g.R.Intn(5)
		if g.NoStartEnd && k < 2 {
			k += 2
		}
		switch k {
		case 0:
			s += " @ start()"
			g.UsesStartEnd = true
		case 1:
			s += " @ end()"
			g.UsesStartEnd = true
		case 2:
			s += fmt.Sprintf(" @ %.3f", float64(g.Start-int64(g.R.Intn(100000)))/1000)
		case 3:
			s += fmt.Sprintf(" @ %.3f", float64(g.Start+int64(g.R.Intn(int(g.End-g.Start)+1)))/1000)
		case 4:
			s += fmt.Sprintf(" @ %.3f", float64(g.End+int64(g.R.Intn(100000)))/1000)
		}
	}
	return s
}

// nameAndMatchers: mostly name{matchers}; sometimes a selector without a metric name or with a
// regex on it, so that dropping the name can make distinct series collide.
func (g *G) nameAndMatchers() string {
	if len(g.P.Metrics) == 0 && g.R.Intn(25) == 0 {
		switch g.R.Intn(5) {
		case 0:
			return fmt.Sprintf(`{%s="%s"}`, g.oneOf(LabelKeys...), g.oneOf(LabelVals...))
		case 1:
			return `{__name__=~"m1|m2"}`
		case 2:
			return fmt.Sprintf(`{__name__=~"m.*",%s!="%s"}`, g.oneOf(LabelKeys...), g.oneOf(LabelVals...))
		case 3:
			return fmt.Sprintf(`{__name__!="%s",%s="%s"}`, g.oneOf("m1", "m2", "m3"), g.oneOf(LabelKeys...), g.oneOf(LabelVals...))
		case 4:
			return fmt.Sprintf(`{__name__!~"%s|zz"}`, g.oneOf("m1", "m2", "m3"))
		}
	}
	m := g.metric()
	if strings.HasPrefix(m, "{") {
		return m
	}
	return m + g.matchers()
}

func (g *G) Selector() string { return g.nameAndMatchers() + g.modifiers() }

var RangeFns = []string{"rate", "increase", "delta", "irate", "idelta", "deriv", "changes", "resets",
	"sum_over_time", "max_over_time", "min_over_time", "avg_over_time", "stddev_over_time", "stdvar_over_time",
	"count_over_time", "last_over_time", "present_over_time"}

var InstFns = []string{"abs", "ceil", "exp", "floor", "sqrt", "ln", "log2", "log10", "sin", "cos", "tan", "asin", "acos", "atan",
	"sinh", "cosh", "tanh", "asinh", "acosh", "atanh", "rad", "deg"}

var Aggrs = []string{"sum", "min", "max", "avg", "count", "group", "stddev", "stdvar"}

var ArithOps = []string{"+", "-", "*", "/", "%", "^", "atan2"}
var CmpOps = []string{"==", "!=", ">", "<", ">=", "<="}

func (g *G) rangeMs() int64 {
	if len(g.P.RangeMs) > 0 {
		return g.P.RangeMs[g.R.Intn(len(g.P.RangeMs))]
	}
	c := []int64{1000, 5000, 30000, 60000, 120000, 300000, 1500, 2500, 1, 45000}
	if g.Step > 0 {
		c = append(c, g.Step, g.Step-1, g.Step+1, 2*g.Step, g.Step/2)
	}
	for {
		r := c[g.R.Intn(len(c))]
		if r > 0 {
			return r
		}
	}
}

func (g *G) RangeFn() string {
	f := RangeFns[g.R.Intn(len(RangeFns))]
	return fmt.Sprintf("%s(%s[%s]%s)", f, g.nameAndMatchers(), dur(g.rangeMs()), g.modifiers())
}

func (g *G) grouping() string {
	if g.R.Float64() >= g.P.PBy {
		return ""
	}
	kw := g.oneOf("by", "without")
	n := g.R.Intn(4)
	keys := []string{"a", "b", "c", "__name__", "le", "nope", "Z"}
	g.R.Shuffle(len(keys), func(i, j int) { keys[i], keys[j] = keys[j], keys[i] })
	if n > 3 {
		n = 3
	}
	pickd := keys[:n]
	// bias towards real labels
	for i := range pickd {
		if g.R.Intn(3) != 0 {
			pickd[i] = g.oneOf("a", "b", "c", "a", "b", "c", "Z")
		}
	}
	pickd = dedup(pickd)
	return fmt.Sprintf(" %s (%s) ", kw, strings.Join(pickd, ","))
}

func dedup(s []string) []string {
	seen := map[string]bool{}
	var out []string
	for _, x := range s {
		if !seen[x] {
			seen[x] = true
			out = append(out, x)
		}
	}
	return out
}

func (g *G) weirdNum() string {
	return g.oneOf("0", "-1", "1", "2", "3", "1e30", "NaN", "Inf", "-Inf", "0.5", "9223372036854775808", "1.5", "100")
}

func (g *G) kParam(d int) string {
	if g.P.Weird && g.R.Intn(3) == 0 {
		return g.weirdNum()
	}
	switch g.R.Intn(6) {
	case 0:
		return "scalar(" + g.paramSelector() + ")"
	case 1:
		return g.Scalar(d - 1)
	}
	return g.oneOf("1", "2", "3", "5")
}

// paramSelector: the selector inside an aggregation parameter; pinned with @ more often than
// elsewhere (the parameter is not made step-invariant by the preprocessor).
func (g *G) paramSelector() string {
	if g.R.Intn(3) == 0 {
		save := g.P
		g.P.PAt = 1
		s := g.Selector()
		g.P = save
		return s
	}
	return g.Selector()
}

func (g *G) qParam(d int) string {
	if g.P.Weird && g.R.Intn(3) == 0 {
		if g.R.Intn(4) == 0 {
			return "scalar(" + g.paramSelector() + ")" // NaN at the steps where the vector is not a singleton
		}
		return g.weirdNum()
	}
	if g.R.Intn(6) == 0 {
		return g.Scalar(d - 1)
	}
	return g.oneOf("0", "0.5", "0.9", "1", "0.25")
}

func (g *G) vectorMatching(allowGroup bool) string {
	s := ""
	if g.R.Float64() < g.P.PMatch {
		kw := g.oneOf("on", "ignoring")
		n := g.R.Intn(3)
		keys := append([]string{}, LabelKeys...)
		g.R.Shuffle(len(keys), func(i, j int) { keys[i], keys[j] = keys[j], keys[i] })
		s += fmt.Sprintf(" %s (%s)", kw, strings.Join(keys[:n], ","))
		if allowGroup && g.R.Float64() < g.P.PGroup {
			gk := g.oneOf("group_left", "group_right")
			inc := ""
			if g.R.Intn(2) == 0 {
				inc = g.oneOf("a", "b", "c", "a,c", "__name__", "le", "Z", "Z,b")
			}
			s += fmt.Sprintf(" %s (%s)", gk, inc)
		}
	}
	return s
}

// Vector generates an instant-vector typed expression of depth <= d.
func (g *G) Vector(d int) string {
	p := g.P
	if d <= 0 {
		if g.pick(p.WSel+1, p.WRangeFn) == 1 {
			return g.RangeFn()
		}
		return g.Selector()
	}
	if p.Fallback && g.R.Intn(5) == 0 {
		// constructs the engine does not evaluate itself, around an ordinary operand: whatever
		// evaluates the query (this engine, a remote one) hands it to the Prometheus engine
		inner := g.Vector(d - 1)
		switch g.R.Intn(6) {
		case 0:
			return fmt.Sprintf("round(%s)", inner)
		case 1:
			return fmt.Sprintf("round(%s, 0.5)", inner)
		case 2:
			return fmt.Sprintf("sort_desc(%s)", inner)
		case 3:
			return fmt.Sprintf("label_replace(%s, \"x\", \"$1\", \"a\", \"(.*)\")", inner)
		case 4:
			return fmt.Sprintf("count_values(\"v\", %s)", inner)
		case 5:
			return fmt.Sprintf("max_over_time((%s)[1m:15s])", inner)
		}
	}
	switch g.pick(p.WSel, p.WRangeFn, p.WInstFn, p.WAggr, p.WKAggr, p.WBinVV, p.WBinVS, p.WUnary, p.WParen, p.WVecOf, p.WClamp, p.WHist, p.WTs, p.WTwice) {
	case 0:
		return g.Selector()
	case 1:
		return g.RangeFn()
	case 2:
		return fmt.Sprintf("%s(%s)", InstFns[g.R.Intn(len(InstFns))], g.Vector(d-1))
	case 3:
		op := Aggrs[g.R.Intn(len(Aggrs))]
		grp := g.grouping()
		if g.R.Intn(2) == 0 {
			return fmt.Sprintf("%s%s(%s)", op, grp, g.Vector(d-1))
		}
		return fmt.Sprintf("%s(%s)%s", op, g.Vector(d-1), grp)
	case 4:
		switch g.R.Intn(3) {
		case 0:
			g.HasTopK = true
			return fmt.Sprintf("%s%s(%s, %s)", g.oneOf("topk", "bottomk"), g.grouping(), g.kParam(d), g.Vector(d-1))
		default:
			return fmt.Sprintf("quantile%s(%s, %s)", g.grouping(), g.qParam(d), g.Vector(d-1))
		}
	case 5:
		var op string
		b := ""
		if g.R.Intn(2) == 0 {
			op = ArithOps[g.R.Intn(len(ArithOps))]
		} else {
			op = CmpOps[g.R.Intn(len(CmpOps))]
			if g.R.Float64() < p.PBool {
				b = " bool"
			}
		}
		if p.Fallback && g.R.Intn(6) == 0 {
			op = g.oneOf("and", "or", "unless")
			b = ""
			return fmt.Sprintf("%s %s%s %s", g.Vector(d-1), op, g.vectorMatching(false), g.Vector(d-1))
		}
		return fmt.Sprintf("%s %s%s%s %s", g.Vector(d-1), op, b, g.vectorMatching(true), g.Vector(d-1))
	case 6:
		var op string
		b := ""
		if g.R.Intn(2) == 0 {
			op = ArithOps[g.R.Intn(len(ArithOps))]
		} else {
			op = CmpOps[g.R.Intn(len(CmpOps))]
			if g.R.Float64() < p.PBool {
				b = " bool"
			}
		}
		if g.R.Intn(2) == 0 {
			return fmt.Sprintf("%s %s%s %s", g.Vector(d-1), op, b, g.Scalar(d-1))
		}
		return fmt.Sprintf("%s %s%s %s", g.Scalar(d-1), op, b, g.Vector(d-1))
	case 7:
		return fmt.Sprintf("-%s", g.atomV(d-1))
	case 8:
		return fmt.Sprintf("(%s)", g.Vector(d-1))
	case 9:
		return fmt.Sprintf("vector(%s)", g.Scalar(d-1))
	case 10:
		switch g.R.Intn(3) {
		case 0:
			return fmt.Sprintf("clamp(%s, %s, %s)", g.Vector(d-1), g.Scalar(d-1), g.Scalar(d-1))
		case 1:
			return fmt.Sprintf("clamp_min(%s, %s)", g.Vector(d-1), g.Scalar(d-1))
		}
		return fmt.Sprintf("clamp_max(%s, %s)", g.Vector(d-1), g.Scalar(d-1))
	case 11:
		save := g.P.Metrics
		g.P.Metrics = []string{"h_bucket"}
		if g.R.Intn(5) == 0 {
			// two classic histograms that differ in the metric name only
			g.P.Metrics = []string{`{__name__=~"h.*_bucket"}`}
		}
		inner := g.Vector(d - 1)
		if g.R.Intn(3) == 0 {
			// the canonical shape: buckets aggregated by le (and maybe one more label) first, so
			// that the operand is produced by an aggregation behind a look-ahead goroutine
			by := []string{"le", "le, a", "le, b", "le, p"}[g.R.Intn(4)]
			op := []string{"sum", "sum", "max", "avg"}[g.R.Intn(4)]
			sel := g.Selector()
			if g.R.Intn(2) == 0 {
				sel = fmt.Sprintf("rate(%s[%s])", sel, []string{"1m", "45s", "5m"}[g.R.Intn(3)])
			}
			inner = fmt.Sprintf("%s by (%s) (%s)", op, by, sel)
		}
		g.P.Metrics = save
		return fmt.Sprintf("histogram_quantile(%s, %s)", g.qParam(d), inner)
	case 12:
		return fmt.Sprintf("timestamp(%s)", g.Vector(d-1))
	case 13:
		return g.Twice()
	}
	return g.Selector()
}

// Twice: one selector core read twice in one query, under the same function with different
// ranges, or bare with different modifiers. Selections are cached per query by matchers, time
// range and hints; this is the shape in which a too-coarse key shows.
func (g *G) Twice() string {
	core := g.metric() + g.matchers()
	if strings.HasPrefix(core, "{") {
		core = "m1"
	}
	op := g.oneOf("+", "-", "/", "*", "==", ">", "<=", "- on ()", "+ ignoring (a)")
	if g.R.Intn(2) == 0 {
		f := RangeFns[g.R.Intn(len(RangeFns))]
		r1, r2 := g.rangeMs(), g.rangeMs()
		for tries := 0; r1 == r2 && tries < 5; tries++ {
			r2 = g.rangeMs()
		}
		m1, m2 := "", ""
		if g.R.Intn(3) == 0 {
			m1 = g.modifiers()
		}
		if g.R.Intn(3) == 0 {
			m2 = g.modifiers()
		}
		return fmt.Sprintf("%s(%s[%s]%s) %s %s(%s[%s]%s)", f, core, dur(r1), m1, op, f, core, dur(r2), m2)
	}
	save := g.P
	g.P.POffset, g.P.PAt = 0.6, 0.6
	a, b := core+g.modifiers(), core+g.modifiers()
	g.P = save
	if g.R.Intn(3) == 0 {
		b = core
	}
	return fmt.Sprintf("%s %s %s", a, op, b)
}

// atomV: a vector expression that binds tighter than unary minus.
func (g *G) atomV(d int) string {
	if d <= 0 || g.R.Intn(2) == 0 {
		return g.nameAndMatchers()
	}
	return "(" + g.Vector(d) + ")"
}

func (g *G) Num() string {
	if g.P.Weird && g.R.Intn(4) == 0 {
		return g.weirdNum()
	}
	return g.oneOf("0", "1", "2", "3", "5", "10", "0.5", "-1", "-2", "100", "1000", "0.25")
}

// Scalar generates a scalar typed expression.
func (g *G) Scalar(d int) string {
	p := g.P
	if d <= 0 {
		switch g.pick(p.WNum+1, p.WTime, p.WPi) {
		case 1:
			return "time()"
		case 2:
			return "pi()"
		}
		return g.Num()
	}
	switch g.pick(p.WNum, p.WTime, p.WPi, p.WScalar, p.WSArith) {
	case 0:
		return g.Num()
	case 1:
		return "time()"
	case 2:
		return "pi()"
	case 3:
		return fmt.Sprintf("scalar(%s)", g.Vector(d-1))
	case 4:
		op := g.oneOf("+", "-", "*", "/", "%", "^", "==bool", "<bool", ">=bool", "!=bool")
		op = strings.Replace(op, "bool", " bool", 1)
		return fmt.Sprintf("(%s %s %s)", g.Scalar(d-1), op, g.Scalar(d-1))
	}
	return g.Num()
}
