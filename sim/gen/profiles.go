package gen

var base = Profile{
	Depth: 3, WSel: 6, WRangeFn: 5, WInstFn: 3, WAggr: 6, WKAggr: 3, WBinVV: 5, WBinVS: 4, WUnary: 2, WParen: 1,
	WVecOf: 1, WClamp: 2, WHist: 1, WTs: 2, WTwice: 2,
	WNum: 6, WTime: 2, WPi: 1, WScalar: 2, WSArith: 2,
	POffset: 0.2, PAt: 0.12, PMatcher: 0.3, PBool: 0.4, PMatch: 0.6, PGroup: 0.4, PBy: 0.6,
}

// Profiles per property family (DESIGN §5).
func ProfileFor(name string) Profile {
	p := base
	p.Name = name
	switch name {
	case "compose":
	case "selector":
		// WBinVV: the same metric selected twice in one query with different modifiers (the
		// selections are cached per query by matchers, time range and hints)
		p = Profile{Name: name, Depth: 1, WSel: 10, WParen: 2, WUnary: 0, WAggr: 1, WBinVS: 1, WBinVV: 2, WTwice: 4,
			WNum: 1, POffset: 0.5, PAt: 0.4, PMatcher: 0.3, PBy: 0, Metrics: []string{"m1", "m1", "m2"}}
	case "rangefn":
		p = Profile{Name: name, Depth: 1, WRangeFn: 10, WAggr: 1, WParen: 1, WTwice: 3, WNum: 1, POffset: 0.4, PAt: 0.3, PMatcher: 0.2, PBy: 0.5}
	case "aggr":
		p = Profile{Name: name, Depth: 3, WSel: 4, WRangeFn: 1, WAggr: 8, WKAggr: 6, WBinVS: 1, WNum: 4, WTime: 1, WScalar: 2, WSArith: 1,
			POffset: 0.1, PAt: 0.05, PMatcher: 0.2, PBy: 0.8, Weird: true}
	case "binary":
		p = Profile{Name: name, Depth: 3, WSel: 6, WAggr: 3, WKAggr: 2, WBinVV: 8, WBinVS: 4, WParen: 1, WTwice: 2, WNum: 4, WTime: 1, WScalar: 1, WSArith: 1,
			POffset: 0.1, PAt: 0.05, PMatcher: 0.3, PBool: 0.5, PMatch: 0.8, PGroup: 0.5, PBy: 0.8}
	case "func":
		p = Profile{Name: name, Depth: 3, WSel: 4, WRangeFn: 1, WInstFn: 8, WAggr: 2, WBinVS: 2, WUnary: 3, WParen: 1, WVecOf: 3, WClamp: 5, WHist: 2, WTs: 4,
			WNum: 5, WTime: 4, WPi: 2, WScalar: 5, WSArith: 4, POffset: 0.15, PAt: 0.25, PMatcher: 0.2, PBool: 0.4, PBy: 0.5, Weird: true}
	case "extreme":
		p.Weird = true
	case "fallback":
		p.Fallback = true
	}
	return p
}
