#!/bin/sh
# Offline setup: build the go1.26.8 standard library and the simulator binaries once (cache warm-up).
# Every check rebuilds from /repo's current working tree anyway.
set -e
cd "$(dirname "$0")"
export GOFLAGS=-mod=mod GOPROXY=off GOSUMDB=off GOTOOLCHAIN=local
GO=$(command -v go1.26.8 || echo /opt/veriftools/go1.26.8/bin/go)
mkdir -p build evidence replays
cp /repo/go.sum sim/go.sum
cd sim
$GO test -tags verif -c -o ../build/sim.test .
$GO test -race -tags verif -c -o ../build/sim.race.test .
echo setup ok
