#!/usr/bin/env python3
"""My own sensitivity mutations (DESIGN §3.8): small source edits, each checked in a scratch worktree
(builds, existing suite passes) and then run against the property's check via tools/seed.py.
usage: ownseeds.py make   (creates /verif/seeded/own-<name>/ for every mutation whose suite passes)"""
import os, subprocess, sys, json, shutil
ROOT = os.path.dirname(os.path.dirname(os.path.abspath(__file__)))
ENV = dict(os.environ, GOFLAGS="-mod=mod", GOPROXY="off", GOSUMDB="off")
M = [
 ("C15-drop-seriesset-err", "C15", "execution/storage/series_selector.go", "\treturn seriesSet.Err()\n", "\t_ = seriesSet.Err()\n\treturn nil\n", "the error of the series set is dropped: a select that fails midway looks like a shorter series list"),
 ("C14-no-drain-goroutine", "C14", "execution/exchange/concurrent.go", "\t\tgo c.drainBufferOnCancel(ctx)\n", "", "without the drain goroutine a pull goroutine blocked on a full buffer is never released after a cancellation"),
 ("C03-window-left-edge-exclusive", "C03", "execution/scan/matrix_selector.go", "\t\t\tif t >= mint {\n", "\t\t\tif t > mint {\n", "a sample exactly on the left window edge is not part of the window"),
 ("C02-lookback-boundary-inclusive", "C02", "execution/scan/vector_selector.go", "\t\tif !ok || t < refTime-lookbackDelta {", "\t\tif !ok || t <= refTime-lookbackDelta {", "a sample of age exactly lookback is no longer selected"),
 ("C04-avg-count-not-reset", "C04", "execution/aggregate/scalar_table.go", "\t\t\t\t\thasValue = false\n\t\t\t\t\tmean = 0\n\t\t\t\t\tcount = 0\n", "\t\t\t\t\thasValue = false\n\t\t\t\t\tmean = 0\n", "noop: count is re-seeded with the first member (kept to show the suite/check agree)"),
 ("C17-rangefn-labels-not-copied", "C17", "execution/scan/matrix_selector.go", "\t\t\t\tlbls, _ = function.DropMetricName(lbls.Copy())", "\t\t\t\tlbls, _ = function.DropMetricName(lbls)", "range functions drop the metric name in the storage's own label slice"),
 ("C07-literal-batch-off-by-one", "C07", "execution/step_invariant/step_invariant.go", "\tfor i := 0; i < u.stepsBatch && u.currentStep <= u.maxt; i++ {", "\tfor i := 0; i < u.stepsBatch && u.currentStep < u.maxt; i++ {", "a step-invariant part loses the last step of the window"),
 ("C12-coalesce-without-mutex", "C12", "execution/exchange/coalesce.go", "\t\t\tc.mu.Lock()\n\t\t\tdefer c.mu.Unlock()\n", "", "shards merge their batches into the shared output without the mutex"),
 ("C20-selector-pool-on-engine", "C20", "execution/storage/pool.go", "\tkey := hashMatchers(matchers, mint, maxt, hints)\n\tif _, ok := p.selectors[key]; !ok {\n\t\tp.selectors[key] = newSeriesSelector(p.queryable, mint, maxt, step, matchers, hints)\n\t}\n\treturn p.selectors[key]", "\tkey := hashMatchers(matchers, mint, maxt, hints)\n\tif s, ok := globalSelectors.Load(key); ok {\n\t\treturn s.(*seriesSelector)\n\t}\n\tif _, ok := p.selectors[key]; !ok {\n\t\tp.selectors[key] = newSeriesSelector(p.queryable, mint, maxt, step, matchers, hints)\n\t\tglobalSelectors.Store(key, p.selectors[key])\n\t}\n\treturn p.selectors[key]", "loaded series are memoised process-wide by matchers and range: a later query over changed data gets the old series"),
 ("C13-no-recover-in-merge", "C13", "execution/exchange/coalesce.go", "\t\t\tdefer func() {\n\t\t\t\tif e := recover(); e != nil {\n\t\t\t\t\terrChan <- recoverToError(e)\n\t\t\t\t}\n\t\t\t}()\n", "", "a panic on a merge goroutine kills the process again"),
 ("C18-selector-eleven-steps", "C18", "query/options.go", "\tif o.StepsBatch < totalSteps {\n\t\treturn int(o.StepsBatch)\n\t}", "\tif o.StepsBatch+1 < totalSteps {\n\t\treturn int(o.StepsBatch) + 1\n\t}", "selectors emit batches of 11 step vectors"),
 ("C09-sort-matchers-by-value", "C09", "logicalplan/sort_matchers.go", "return e.LabelMatchers[i].Name < e.LabelMatchers[j].Name", "return e.LabelMatchers[i].Value < e.LabelMatchers[j].Value", "harmless reordering (kept as a negative control: must NOT be reported)"),
]
EXTRA = {"C20-selector-pool-on-engine": ("execution/storage/pool.go", "var sep = []byte{'\\xff'}\n", "var sep = []byte{'\\xff'}\n\nvar globalSelectors sync.Map\n", '\t"strings"\n', '\t"strings"\n\t"sync"\n')}

def sh(cmd, cwd=None):
    p = subprocess.run(cmd, shell=True, cwd=cwd, env=ENV, capture_output=True, text=True)
    return p.returncode, p.stdout + p.stderr

def main():
    for name, prop, path, old, new, why in M:
        dst = os.path.join(ROOT, "seeded", "own-" + name)
        if os.path.exists(os.path.join(dst, "meta.json")):
            continue
        v = "/tmp/own-%d" % os.getpid()
        sh("git -C /repo worktree remove --force " + v)
        sh("git -C /repo worktree add --detach %s HEAD" % v)
        try:
            f = os.path.join(v, path)
            s = open(f).read()
            if s.count(old) != 1:
                print(name, "ANCHOR NOT FOUND (%d)" % s.count(old)); continue
            s = s.replace(old, new)
            if name in EXTRA:
                _, o1, n1, o2, n2 = EXTRA[name]
                assert s.count(o1) == 1 and s.count(o2) == 1
                s = s.replace(o1, n1).replace(o2, n2)
            open(f, "w").write(s)
            rc, o = sh("gofmt -l . ; go build ./... && go build -tags verif ./...", cwd=v)
            if rc != 0:
                print(name, "DOES NOT BUILD", o[-300:]); continue
            rc, o = sh("go test -vet=off -count=1 ./...", cwd=v)
            if rc != 0:
                print(name, "SUITE CATCHES IT"); continue
            rc, diff = sh("git diff", cwd=v)
            os.makedirs(dst, exist_ok=True)
            open(os.path.join(dst, "patch.diff"), "w").write(diff)
            json.dump({"id": "own-" + name, "property": prop, "author": "me (sensitivity mutation, DESIGN 3.8)", "what": why,
                       "confirmed": {"build": "ok", "suite_with_change": "PASS", "demo": "none (no demonstration written; the change is self-evident from the diff)"}, "runs": []},
                      open(os.path.join(dst, "meta.json"), "w"), indent=1)
            print(name, "READY")
        finally:
            sh("git -C /repo worktree remove --force " + v)

main()
