#!/usr/bin/env python3
"""seed.py verify <srcdir> <seed-id>   confirm a sub-agent's change in a fresh scratch worktree of /repo
   (patch applies, builds, existing suite passes, demo fails with / passes without), then store it
   under /verif/seeded/<seed-id>/ (patch.diff, demo, notes, meta.json).
seed.py run <seed-id> <Cxx> [budget] [seed]   apply the stored patch to /repo, run ./check Cxx, undo; append the outcome to meta.json."""
import json, os, re, shutil, subprocess, sys, time
ROOT = os.path.dirname(os.path.dirname(os.path.abspath(__file__)))
ENV = dict(os.environ, GOFLAGS="-mod=mod", GOPROXY="off", GOSUMDB="off")

def sh(cmd, cwd=None, timeout=1800):
    p = subprocess.run(cmd, shell=True, cwd=cwd, env=ENV, capture_output=True, text=True, timeout=timeout)
    return p.returncode, (p.stdout + p.stderr)

def verify(src, sid):
    out = os.path.join(src, "_out")
    patch = os.path.join(out, "patch.diff")
    demos = [f for f in os.listdir(out) if f.endswith(".go")]
    assert os.path.exists(patch) and demos, "missing deliverables in " + out
    v = "/tmp/seedverify-%d" % os.getpid()
    sh("git -C /repo worktree remove --force %s" % v)
    rc, o = sh("git -C /repo worktree add --detach %s HEAD" % v)
    assert rc == 0, o
    res = {}
    try:
        # where does the demo go? first line comment usually says; default engine/
        placed = []
        for d in demos:
            txt = open(os.path.join(out, d)).read()
            m = re.search(r"^package\s+(\w+)", txt, re.M)
            pkg = m.group(1) if m else "engine_test"
            sub = {"engine_test": "engine", "engine": "engine", "logicalplan": "logicalplan", "logicalplan_test": "logicalplan"}.get(pkg)
            if sub is None:
                hit = re.search(r"(\w+(?:/\w+)*)/zz_\w+_test\.go", txt)
                sub = hit.group(1) if hit else "engine"
            dst = os.path.join(v, sub, "zz_seed_" + d if not d.startswith("zz_") else d)
            if not dst.endswith("_test.go"):
                dst = dst[:-3] + "_test.go"
            shutil.copy(os.path.join(out, d), dst)
            placed.append((sub, dst))
        pkgs = " ".join(sorted(set("./%s/" % s for s, _ in placed)))
        names = []
        for d in demos:
            names += re.findall(r"^func (Test\w+)\(", open(os.path.join(out, d)).read(), re.M)
        RUN = "^(" + "|".join(names) + ")$"
        rc, o = sh("go test -vet=off -count=1 -run '%s' %s" % (RUN, pkgs), cwd=v)
        res["demo_without_change"] = "PASS" if rc == 0 else "FAIL"
        res["demo_without_change_tail"] = o[-600:]
        rc, o = sh("git apply %s" % patch, cwd=v)
        assert rc == 0, "patch does not apply: " + o
        rc, o = sh("go build ./... && go vet -tags verif ./verifhook/ >/dev/null 2>&1; go build -tags verif ./...", cwd=v)
        res["build"] = "ok" if rc == 0 else "FAIL: " + o[-500:]
        rc, o = sh("go test -vet=off -count=1 -run '%s' %s" % (RUN, pkgs), cwd=v)
        res["demo_with_change"] = "FAIL" if rc != 0 else "PASS"
        res["demo_with_change_tail"] = o[-900:]
        for _, dst in placed:
            os.unlink(dst)
        rc, o = sh("go test -vet=off -count=1 ./...", cwd=v)
        res["suite_with_change"] = "PASS" if rc == 0 else "FAIL: " + o[-800:]
    finally:
        sh("git -C /repo worktree remove --force %s" % v)
    ok = res.get("demo_without_change") == "PASS" and res.get("demo_with_change") == "FAIL" and res.get("build") == "ok" and res.get("suite_with_change") == "PASS"
    print(json.dumps(res, indent=1))
    print("CONFIRMED" if ok else "NOT CONFIRMED")
    if ok:
        dst = os.path.join(ROOT, "seeded", sid)
        os.makedirs(dst, exist_ok=True)
        shutil.copy(patch, os.path.join(dst, "patch.diff"))
        for d in demos:
            shutil.copy(os.path.join(out, d), os.path.join(dst, d if d.endswith("_test.go") else d[:-3] + "_test.go.txt"))
        for d in os.listdir(dst):
            if d.endswith("_test.go"):
                os.rename(os.path.join(dst, d), os.path.join(dst, d + ".txt"))  # keep go tooling away from it
        notes = os.path.join(out, "notes.md")
        if os.path.exists(notes):
            shutil.copy(notes, os.path.join(dst, "notes.md"))
        meta = {"id": sid, "confirmed": res, "confirmed_at_repo_commit": subprocess.run("git -C /repo rev-parse --short HEAD", shell=True, capture_output=True, text=True).stdout.strip(), "runs": []}
        json.dump(meta, open(os.path.join(dst, "meta.json"), "w"), indent=1)
    return ok

def run(sid, prop, budget=None, seed=None):
    dst = os.path.join(ROOT, "seeded", sid)
    meta = json.load(open(os.path.join(dst, "meta.json")))
    rc, o = sh("git -C /repo status --porcelain")
    assert o.strip() == "", "/repo is not clean: " + o
    rc, o = sh("git -C /repo apply %s" % os.path.join(dst, "patch.diff"))
    assert rc == 0, o
    t0 = time.time()
    try:
        cmd = "./check %s --tier quick" % prop
        if budget:
            cmd += " --budget %s" % budget
        if seed:
            cmd += " --seed %s" % seed
        rc, o = sh(cmd, cwd=ROOT, timeout=7200)
    finally:
        sh("git -C /repo checkout -- .")
    viol = re.findall(r"^  key: (.*)$", o, re.M)
    entry = {"check": cmd, "exit": rc, "wall_s": round(time.time() - t0, 1), "violation_keys": viol[:8], "summary": o.strip().split("\n")[-1][:300]}
    meta["runs"].append(entry)
    json.dump(meta, open(os.path.join(dst, "meta.json"), "w"), indent=1)
    print(json.dumps(entry, indent=1))
    for l in o.split("\n"):
        if l.startswith("VIOLATION") or l.startswith("  ") and len(l) < 400:
            pass
    first = re.search(r"VIOLATION.*\n.*\n(.*)", o)
    if first:
        print(first.group(1)[:500])

if sys.argv[1] == "verify":
    sys.exit(0 if verify(sys.argv[2], sys.argv[3]) else 1)
elif sys.argv[1] == "run":
    run(*sys.argv[2:])
