#!/usr/bin/env python3
"""Rebuilds the `fixed` entries of known_findings.json from the fix: commits of /repo (open entries are kept)."""
import json, subprocess, os
ROOT = os.path.dirname(os.path.dirname(os.path.abspath(__file__)))
PROP = [  # substring of the commit subject -> property whose check found it, what failed (input / schedule)
 ("per-query lookback", "C02", "m offset -56s with QueryOpts.LookbackDelta=5m on an engine with 7s lookback: sample of age 46s not selected"),
 ("no-argument functions", "C06", "time() + 1, pi() % 2, vector(time()): index out of range in the consumer"),
 ("keep the points of earlier batches", "C06", "time() over 21 steps returned 1 point"),
 ("instant functions drop samples", "C06", "clamp(m, 5, 1) kept every series with value 0"),
 ("unary negation starts", "C13", "sum(-m), scalar(-m): nil context in Worker.Send on the pull goroutine, process dies"),
 ("in-engine filter applies", "C09", "m + m{a=\"x\"} under MergeSelectsOptimizer matched series without label a"),
 ("rate divides", "C03", "rate(m[2500ms]) scaled by 2s instead of 2.5s"),
 ("binary operators drop the metric name", "C05", "m == bool 1 kept __name__; 0 atan2 m dropped it"),
 ("without() removes", "C04", "sum without (b) (m) labelled the output with __name__"),
 ("max and min ignore NaN", "C04", "max by (a) (m) with one NaN member returned NaN"),
 ("stddev and stdvar follow", "C04", "stdvar(m * 10 ^ time()) (single +Inf member) returned NaN, reference 0"),
 ("group_left/group_right merge", "C05", "m1 % ignoring (c) group_left (a,c) rate(m1[5m]): included labels appended unsorted/duplicated"),
 ("matcher propagation keeps", "C09", "m1 - m2 under PropagateMatchersOptimizer selected every series on both sides"),
 ("topk/bottomk emit one step vector", "C04", "topk without (a) (1, m) as operand: one step vector per group per step; topk(0|-1, m) index out of range on the pull goroutine"),
 ("scalar() yields NaN", "C06", "scalar(m) for steps/queries where m is empty returned nothing"),
 ("plan traversal rewrites", "C09", "avg_over_time(m1[45s]) + scalar(m1{b!=\"x\"}) under MergeSelectsOptimizer lost the filter b!=\"x\""),
 ("scalar() result carries", "C06", "vector(scalar(m2)) with two series, one without samples: sample ID 1 with one series; scalar(avg(m)) stamped empty steps with T=0"),
 ("aggregations stamp empty steps", "C18", "sum(m) emitted empty steps with the timestamp of an earlier batch"),
 ("timestamp() returns", "C06", "timestamp(m) = 0 for every sample"),
 ("vector matching fails and matches", "C05", "m1 % ignoring (a) m2 with two left series per group returned duplicates instead of the many-to-one error; duplicates on the one side unnoticed without a match; error although the other side was empty"),
 ("pairings with equal output labels", "C19", "delta(m1[30s]) > bool ignoring (c,b) stdvar(...): the label set {} twice in one matrix"),
 ("validate their parameter also when the input is empty", "C04", "topk(scalar(m1), m2) with no m2 series: reference fails with 'Scalar value NaN overflows int64'"),
 ("included labels follow", "C05", "m1 / on (c) group_left (b) m1 where the one side group holds a second series without samples at the step"),
 ("reject k = 2^63", "C04", "topk(9223372036854775808, m): reference fails, engine returned empty"),
 ("timestamp() of a selector with @", "C06", "timestamp(m3 @ 955.870 offset 1m43s) differed from the reference by the offset"),
 ("bool comparisons drop an included", "C05", "m2 > bool on (a) group_left (__name__) m2 kept __name__"),
 ("matcher propagation only with default", "C09", "m3{a=~\".+\"} % on () m1 and m3{b=\"y\",b!=\"x\"} % m1{c=~\"\"} under PropagateMatchersOptimizer"),
 ("evaluate the rest of an operand", "C05", "m2 <= on (a) m1 < m2 @ end(): duplicate-series error of the left operand lost because the right operand is empty"),
 ("cancelled query never takes a drained buffer", "C14", "cancel at storage callback 30 of present_over_time(m3[2500ms] ...) with 3 shards, drain goroutine scheduled before the consumer: Exec returned a successful empty vector"),
 ("panics on the engine's own goroutines", "C13", "runtime panic inside Iterator.Next on a conc.pull goroutine (m1 >= m3, callback 17) kills the process"),
 ("histogram_quantile applies", "C06", "histogram_quantile(10, h_bucket) with a single bucket returned NaN, reference +Inf"),
 ("avg computes the mean incrementally", "C04", "1 % avg(resets(m1[45s])): last-place difference flipped the modulo"),
 ("parameters and scalar arguments are evaluated", "C06", "clamp(m2, scalar(<ambiguous match>), 1) with empty m2: reference error lost"),
 ("select merging compares matchers", "C09", "m1{b=~\"\",b!~\"x\"} - on (a) m1{a=~\"x|y\",b!~\"x\"} under MergeSelectsOptimizer"),
 ("select hints name", "C16", "avg(1 + m1): select hinted func=avg by=true, reference hints neither; avg((m2)) hinted by=true"),
 ("results of remote engines are not stretched", "C10", "avg_over_time(m1[5s]) through one remote engine: 4 points instead of 1"),
 ("expressions without selectors are not distributed", "C10", "time(), vector(1 < bool time()) over 3 partitions: duplicate series / index out of range"),
 ("scalar() and histogram_quantile() are evaluated over the union", "C10", "scalar(m3) over 4 partitions: NaN per partition, duplicate {} series"),
 ("aggregations whose parameter reads series", "C10", "bottomk(scalar(m2), m1) pushed down whole"),
 ("two series with the same labels at one step", "C08", "abs({a=\"x\"}) over m1{a=x,b=y} and m2{a=x,b=y}: reference fails with 'vector cannot contain metrics with the same labelset'"),
 ("series with equal labels are merged", "C19", "clamp({__name__=~\"m.*\"}, ...) over two series that take turns over time: the label set {b=\"x\"} twice in one matrix"),
 ("results of the fallback path stay valid", "C20", "irate(m1[5m]) unless m3 (fallback): points of the kept result overwritten after Close and a later query (Prometheus' point pool)"),
 ("equal labels across partitions fail", "C10", "changes({__name__=~\"m.*\"}[1s]) over 3 partitions: central engine fails with duplicate labelset, distributed returned both"),
 ("selects below a step-invariant part", "C16", "quantile(scalar(m3), m1 @ start()): select of m3 hinted end=start instead of the query's end"),
 ("timestamp() selects the time range it reads", "C16", "timestamp(m2 @ 74.336 offset 7s) with a storage trimming to the hinted range returned nothing"),
 ("histogram_quantile gathers buckets per metric name", "C06", "histogram_quantile(1, {__name__=~\"h.*_bucket\"}) merged two histograms; reference fails with duplicate labelset"),
 ("evaluated by the Prometheus engine are safe next to Exec", "C12", "Close() from a second goroutine while a fallback query executes: data race between promql.(*query).Close (reads q.matrix) and execEvalStmt (writes it), reported by the race-detector half once concurrent clients were cancelled/closed; Close did not abort the fallback query either"),
 ("with the query's lookback", "C10", "distributed query with QueryOpts.LookbackDelta=1m (bottomk(1, 1 % m1), sample older than 1m): the remote engines used their default 5m lookback; first seen in a thorough C13 run as a follow-up difference, then by C10 once its generator drew per-query lookbacks"),
 ("reads at the pinned time at every step", "C01", "quantile(scalar(timestamp(m1 @ 87007.744)), vector(time())) over 21 steps: NaN at the last step, reference +Inf (found once the selector profile drew selectors as aggregation parameters)"),
 ("different range hints are not shared", "C16", "present_over_time(m3[1m] @ end()) <= present_over_time(m3[2s500ms]) over [1234567..1292067]: one storage select with range=60000 where the reference issues a second one with range=2500 (thorough C16, seed 5)"),
 ("Cancel and Close of a query are safe", "C13", "Cancel() from a second goroutine parked between the nil check and the call while the caller's Close() ran after Exec returned: nil-pointer panic on the caller's goroutine (found once the automatic yield points covered cancel calls)"),
 ("overtakes the start of Exec", "C14", "Cancel() issued after Exec was called but before Exec stored its cancel function was dropped; the query ran to completion (schedule: main parked in front of the new mutex, canceller first)"),
 ("unary minus rejects equal output labels", "C01", "-{__name__=~\"m.*\"} with samples at different steps: reference fails, engine merged"),
 ("topk/bottomk over equal labels from two partitions", "C19", "distributed topk(2, abs({__name__=~\"m1|m3\"})), m1 and m3 in different partitions, both with a sample at the last step: one result series {} with two points at t=21000 (timestamps-not-increasing; sweep 20, seed 13, case C19-quick-s13-i9219)"),
 ("range functions fail on equal output labels", "C03", "delta({__name__=~\"m.*\"}[30s]) with samples of the two series at different steps"),
]
log = subprocess.run("git -C /repo log --reverse --format='%h %s'", shell=True, capture_output=True, text=True).stdout.strip().split("\n")
path = os.path.join(ROOT, "known_findings.json")
kf = json.load(open(path))
out = [f for f in kf["findings"] if f.get("status") != "fixed"]
for l in log:
    h, s = l.split(" ", 1)
    if not s.startswith("fix:"):
        continue
    prop, what = "C01", s[5:]
    for k, p, w in PROP:
        if k in s:
            prop, what = p, w
    out.append({"property": prop, "status": "fixed", "commit": h, "description": s[5:], "what_failed": what,
                "line": "fixed: property=%s %s %s" % (prop, h, what)})
kf["findings"] = out
json.dump(kf, open(path, "w"), indent=1)
print(len(out), "entries")
