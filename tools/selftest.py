#!/usr/bin/env python3
"""Determinism self-test of the simulator: for every property, generate a few cases with several
seeds, then replay each case in fresh processes at OS-level GOMAXPROCS 1, 4 and 16 and require
identical event-log hashes and identical violation keys. Plus the source census of /repo:
`go` statements and blocking multi-case selects must all be hooked sites.
usage: selftest.py [cases_per_property=2] [seeds=2]   exit 0 ok / 2 mismatch"""
import json, os, subprocess, sys, re, hashlib
ROOT = os.path.dirname(os.path.dirname(os.path.abspath(__file__)))
sys.path.insert(0, ROOT)
import importlib.machinery, importlib.util
loader = importlib.machinery.SourceFileLoader("checkmod", os.path.join(ROOT, "check"))
spec = importlib.util.spec_from_loader("checkmod", loader)
ck = importlib.util.module_from_spec(spec)
loader.exec_module(ck)

def main():
    ncase = int(sys.argv[1]) if len(sys.argv) > 1 else 2
    nseed = int(sys.argv[2]) if len(sys.argv) > 2 else 2
    binary = ck.build(False)
    rdir = os.path.join(ck.BUILD, "selftest")
    subprocess.run(["rm", "-rf", rdir]); os.makedirs(rdir)
    props = sorted(ck.RULES)
    bad = 0
    total = 0
    for prop in props:
        for seed in range(101, 101 + nseed):
            out = os.path.join(rdir, "%s-%d.jsonl" % (prop, seed))
            cfg = {"mode": "gen", "prop": prop, "tier": "quick", "seed": seed, "worker": 0, "nworkers": 1, "budget_s": 60, "max_cases": ncase, "out": out, "minimize_budget": 1}
            p = ck.run_worker(binary, cfg, out + ".cfg", 120)
            p.communicate(timeout=600)
            cases = [r["case"] for r in ck.read_records(out) if r["type"] == "start"]
            for c in cases:
                path = os.path.join(rdir, "case-%s.json" % hashlib.sha1(json.dumps(c, sort_keys=True).encode()).hexdigest()[:10])
                json.dump({"case": c, "violation": {"property": prop}}, open(path, "w"))
                sigs = []
                for gmp in ("1", "4", "16"):
                    os.environ["GOMAXPROCS"] = gmp
                    ck.ENV["GOMAXPROCS"] = gmp
                    recs, rc, so = ck.replay(binary, rdir, path)
                    rp = [r for r in recs if r["type"] == "replayed"]
                    if not rp:
                        sigs.append(("died", rc))
                        continue
                    res = rp[0]["result"]
                    sigs.append((rp[0].get("hash"), res.get("steps"), tuple(sorted(v["key"] for v in res.get("violations") or [])), res.get("skipped"), res.get("infra")))
                total += 1
                if len(set(sigs)) != 1:
                    bad += 1
                    print("NONDETERMINISTIC %s %s: %s" % (prop, path, sigs))
    ck.ENV.pop("GOMAXPROCS", None)
    # source census
    gos = subprocess.run("grep -rn --include=*.go -E '^\\s*go (func|[a-zA-Z_.]+\\()' /repo --exclude=*_test.go | grep -v /verifhook/", shell=True, capture_output=True, text=True).stdout.strip().split("\n")
    hooked = 0
    for g in gos:
        f, ln = g.split(":")[:2]
        src = open(f).read().split("\n")
        window = "\n".join(src[int(ln) - 1:int(ln) + 3])
        ok = "verifhook.Go(" in window
        m = re.search(r"go \w+\.(\w+)\(", src[int(ln) - 1])
        if not ok and m:
            # a method call: the hook is the first statement of the method
            body = subprocess.run("grep -rn -A2 --include=*.go -E 'func \\([^)]*\\) %s\\(' %s" % (m.group(1), os.path.dirname(f)), shell=True, capture_output=True, text=True).stdout
            ok = "verifhook.Go(" in body
        if ok:
            hooked += 1
        else:
            print("COVERAGE GAP: unhooked go statement %s:%s" % (f, ln))
    sel = subprocess.run("grep -rn --include=*.go -A3 'select {' /repo --exclude=*_test.go | grep -c 'case.*<-.*input' ", shell=True, capture_output=True, text=True).stdout.strip()
    print("selftest: %d cases x 3 core counts, %d nondeterministic; %d/%d go statements hooked; blocking multi-case selects on worker input: %s" % (total, bad, hooked, len(gos), sel))
    sys.exit(2 if bad else 0)

main()
