#!/usr/bin/env python3
"""Regenerates MANIFEST.json from the table below (keeps it schema-valid at all times)."""
import json, subprocess, os
ROOT = os.path.dirname(os.path.dirname(os.path.abspath(__file__)))
rules = json.load(open(os.path.join(ROOT, 'rules.json')))
hooks = subprocess.run("git -C /repo log --format=%H --grep='^verif hooks' ", shell=True, capture_output=True, text=True).stdout.split()
CLAIMED = sorted(k for k, v in rules.items() if v.get('claimed', True))
NA = {k: v['not_applicable'] for k, v in rules.items() if v.get('not_applicable')}
checks = []
for p in CLAIMED:
    if p in NA:
        continue
    r = rules[p]
    checks.append({
        "property_id": p,
        "quick_cmd": "./check %s --tier quick" % p,
        "thorough_cmd": "./check %s --tier thorough" % p,
        "evidence_file": "evidence/%s.json" % p,
        "replay_cmd_template": "./check %s --replay {path}" % p,
        "engine": "verifsim",
        "level_claimed": {"category": "exploration", "text": r.get("level_text", "seeded search over simulated executions; a clean batch is evidence, not proof"), "design_ref": r.get("design_ref", "DESIGN.md §5")},
        "level_note": r.get("level_note", "trusted: the simulator (scheduler, simulated storage, oracles), testing/synctest of go1.26.8, Prometheus v0.40.1 as reference model"),
        "technique": r.get("technique", "deterministic simulation: seeded scheduler + simulated storage, reference-model oracle"),
    })
m = {
    "version": 1,
    "setup_cmd": "./setup.sh",
    "hooks": {"guard": "verif", "enable": "go build/test -tags verif (the simulator module /verif/sim replaces the engine module with a scratch copy of /repo's working tree, made and removed by ./check at build time, into which sim/cmd/autoyield has inserted further verifhook.Yield calls at every synchronisation operation; /repo itself only carries the hand-placed hooks of the commits below)",
              "baseline_off_cmd": "cd /repo && go test -mod=mod -vet=off -count=1 -timeout 25m ./...",
              "source_commits": hooks, "add_only": True},
    "engines": [{"name": "verifsim", "path": "sim/", "serves_properties": [c["property_id"] for c in checks],
                 "kind_free_text": "deterministic simulator: real engine code, real goroutines parked at hook sites and released one at a time by a seeded scheduler over testing/synctest (fake clock, quiescence); simulated storage.Queryable with fault injection; simulated remote engines; Prometheus v0.40.1 as executable reference model"}],
    "checks": checks,
    "notes": "see DESIGN.md; known_findings.json lists repaired (fixed) and recorded (open) genuine defects",
    "not_applicable": [{"property_id": k, "reason": v} for k, v in sorted(NA.items())],
}
json.dump(m, open(os.path.join(ROOT, 'MANIFEST.json'), 'w'), indent=1)
print("checks:", [c["property_id"] for c in checks])
