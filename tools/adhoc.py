#!/usr/bin/env python3
"""adhoc.py PROP 'query' start end step 'm1{a=x}:1000=1,2000=2;m2:...' [key=value ...]
Builds a one-op diff case and replays it (verbose) through ./check PROP --replay."""
import sys, json, re, subprocess, os
prop, q, start, end, step, data = sys.argv[1], sys.argv[2], int(sys.argv[3]), int(sys.argv[4]), int(sys.argv[5]), sys.argv[6]
series = []
for s in filter(None, data.split(';')):
    name, _, pts = s.partition(':')
    m = re.match(r'(\w+)(?:\{(.*)\})?', name)
    l = ['__name__', m.group(1)]
    if m.group(2):
        for kv in m.group(2).split(','):
            k, v = kv.split('=')
            l += [k, v]
    T, V = [], []
    for p in filter(None, pts.split(',')):
        t, v = p.split('=')
        T.append(int(t))
        try: V.append(float(v))
        except: V.append(v)
        if isinstance(V[-1], float) and V[-1] != V[-1]: V[-1] = 'NaN'
    series.append({'l': l, 't': T, 'v': V})
op = {'q': q, 'start': start, 'end': end, 'step': step, 'shards': 1, 'eng': {'optim': 'none'}}
scen = 'diff'
for kv in sys.argv[7:]:
    k, v = kv.split('=', 1)
    if k == 'optim': op['eng']['optim'] = v
    elif k == 'lookback': op['eng']['lookback_ms'] = int(v)
    elif k == 'scen': scen = v
    else: op[k] = json.loads(v)
case = {'id': 'adhoc', 'property': prop, 'scenario': scen, 'seed': 0, 'data': series, 'ops': [op], 'sched': {'strategy': 'first', 'tape': []}}
path = '/tmp/adhoc.json'
json.dump({'case': case, 'violation': {'property': prop}}, open(path, 'w'))
r = subprocess.run([os.path.join(os.path.dirname(__file__), '..', 'check'), prop, '--replay', path], capture_output=True, text=True)
print(r.stdout[-3000:], r.stderr[-2000:])
